#!/bin/sh
# usage: runmutants.sh <PROP> <outdir>   validates and tries each mutant N in outdir
P=$1; O=$2
for n in 1 2 3; do
  [ -f $O/$n/patch.diff ] || continue
  PKG=$(head -1 $O/$n/demo_test.go | grep -o 'app/[a-zA-Z0-9_/]*\|sdk/[a-zA-Z0-9_/]*' | head -1)
  echo "=== $P/$n pkg=$PKG: $(grep -o '"summary": "[^"]*' $O/$n/meta.json | cut -c13-150)"
  /verif/tools/validate_mutant.sh $O/$n $PKG 2>&1 | grep -E "^---|^ok|FAIL|PATCH|cannot|error" | tr '\n' ' '; echo
  /verif/tools/trymutant.sh $O/$n/patch.diff $P
done

#!/bin/sh
# Canary selftest: for every "fixed" entry of known_findings.json, reverts the fix commit in /repo's
# working tree (restored afterwards), runs the property's quick check with evidence redirected to
# scratch, and expects a VIOLATION naming the recorded obligation ("a fixed entry suppresses nothing").
cd /verif
git -C /repo diff --quiet HEAD || { echo "REPO HAS UNCOMMITTED CHANGES - commit first"; exit 3; }
GOVC_EVIDENCE_DIR=$(mktemp -d /dev/shm/refix.XXXXXX); export GOVC_EVIDENCE_DIR
bad=0
python3 -c "
import json
for k in json.load(open('known_findings.json'))['findings']:
    if k['status']=='fixed': print(k['property'],k['commit'],k['obligation'])
" | while read prop commit obl; do
  if ! git -C /repo revert --no-commit $commit >/dev/null 2>&1; then
    git -C /repo revert --abort >/dev/null 2>&1; git -C /repo checkout HEAD -- . 
    echo "$prop $commit SKIPPED (revert conflicts with later commits)"; continue
  fi
  out=$(./check $prop quick 2>&1)
  git -C /repo revert --abort >/dev/null 2>&1; git -C /repo reset -q --hard HEAD
  if echo "$out" | grep '^VIOLATION' | grep -qF "obligation=$obl "; then echo "$prop $commit REPORTED $obl"
  elif echo "$out" | grep -q '^VIOLATION'; then echo "$prop $commit REPORTED-OTHER $(echo "$out" | grep -c '^VIOLATION') line(s), not $obl: $(echo "$out" | grep '^VIOLATION' | head -2 | sed 's/.*obligation=//' | tr '\n' ' ')"
  else echo "$prop $commit MISSED $obl"; fi
done
rm -rf "$GOVC_EVIDENCE_DIR"

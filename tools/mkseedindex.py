#!/usr/bin/env python3
"""Writes /verif/seeded/INDEX.md: one line per seeded property-breaking change: what it changes, what it needs to
manifest, and which check / obligation reports it (from each meta.json)."""
import json,glob,os,re
rows=[]
det=0
for d in sorted(glob.glob('/verif/seeded/*-*'), key=lambda p:(p.split('/')[-1].split('-')[0], int(p.split('-')[-1]))):
    m=json.load(open(d+'/meta.json'))
    name=d.split('/')[-1]
    by=m.get('checked_by',[m.get('property',name.split('-')[0])])
    obs=m.get('violated_obligations',[])
    ok=m.get('detected_by_check')
    det+=1 if ok else 0
    summ=re.sub(r'\s+',' ',m.get('summary',''))[:220]
    needs=re.sub(r'\s+',' ',m.get('needs',''))[:160]
    rows.append(f"| {name} | {summ} | {needs} | {'check '+','.join(by)+': '+'; '.join(o[:110] for o in obs[:2]) if ok else 'NOT detected' + (': '+m['note'][:160] if m.get('note') else '')} |")
out=f"# Seeded property-breaking changes ({len(rows)}; {det} reported by a check)\n\nEach directory holds patch.diff, a demonstration test (passes on the pinned tree, fails with the patch) and meta.json with the validation transcript. Re-run: `tools/selftest.sh [PROP...]`.\n\n| change | what it changes | what it needs to manifest | reported by |\n|---|---|---|---|\n"+"\n".join(rows)+"\n"
open('/verif/seeded/INDEX.md','w').write(out)
print(len(rows),det)

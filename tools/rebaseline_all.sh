#!/bin/sh
# Regenerates every baseline as the UNION of the committed one and what discharges now (a baseline never shrinks
# silently: an obligation that stopped discharging on the pinned tree must be looked at, tools/regress.sh shows it).
cd /verif
for id in $(python3 -c "import json;print(' '.join(c['property_id'] for c in json.load(open('MANIFEST.json'))['checks']))"); do
  cp baseline/$id.obligations /dev/shm/old.$id 2>/dev/null || : > /dev/shm/old.$id
  bin/govc baseline $id | tail -1
  (head -1 baseline/$id.obligations; (tail -n +2 baseline/$id.obligations; grep -v '^#' /dev/shm/old.$id) | sort -u) > /dev/shm/new.$id
  cp /dev/shm/new.$id baseline/$id.obligations
done

#!/usr/bin/env python3
"""keepmutants.py PROP OUTDIR [NUMBER-OFFSET]: copy validated mutants into /verif/seeded/PROP-N, running validation + the check, and record results in meta.json."""
import sys, os, json, subprocess, shutil, re
prop, out = sys.argv[1], sys.argv[2]
offset = int(sys.argv[3]) if len(sys.argv) > 3 else 0
for n in ('1','2','3','4','5'):
    d = os.path.join(out, n)
    if not os.path.exists(os.path.join(d, 'patch.diff')): continue
    first = open(os.path.join(d,'demo_test.go')).readline()
    m = re.search(r'((app|sdk)/[A-Za-z0-9_/]+)', first)
    pkg = m.group(1)
    val = subprocess.run(['/verif/tools/validate_mutant.sh', d, pkg], capture_output=True, text=True).stdout
    parts = val.split('---')
    ok = (' ok ' in parts[1] or '\nok' in parts[1]) and 'FAIL' in parts[3] and ('ok' in parts[4] and 'FAIL' not in parts[4])
    chk = subprocess.run(['/verif/tools/trymutant.sh', os.path.join(d,'patch.diff'), prop], capture_output=True, text=True).stdout
    viol = [l.split('obligation=')[1].split()[0] for l in chk.splitlines() if l.startswith('VIOLATION')]
    dst = f'/verif/seeded/{prop}-{int(n)+offset}'
    os.makedirs(dst, exist_ok=True)
    for f in ('patch.diff','demo_test.go'):
        shutil.copy(os.path.join(d,f), os.path.join(dst,f))
    meta = json.load(open(os.path.join(d,'meta.json')))
    meta['property'] = prop
    meta['demo_package_dir'] = pkg
    meta['confirmed_by_me'] = {'demo_passes_without_patch_and_fails_with_it_and_existing_tests_pass': ok,
        'ran': [f'tools/validate_mutant.sh {d} {pkg}', f'tools/trymutant.sh patch.diff {prop}']}
    meta['detected_by_check'] = bool(viol)
    meta['violated_obligations'] = viol
    json.dump(meta, open(os.path.join(dst,'meta.json'),'w'), indent=1)
    print(prop, n, 'valid' if ok else 'INVALID', 'DETECTED' if viol else 'missed', viol[:2])

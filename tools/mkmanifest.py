#!/usr/bin/env python3
"""Regenerates /verif/MANIFEST.json from tools/claims.json (kept by hand).
claims.json: {"claimed": {ID: {level, text, note}}, "not_applicable": {ID: reason}, "source_commits": [...]}"""
import json, subprocess
src = json.load(open('/verif/tools/claims.json'))
props = [json.loads(l)['id'] for l in open('/verif/properties.jsonl')]
# every guarded commit in /repo (message starts with "verif:"), oldest first; claims.json's list is kept as a cross-check
hook_commits = subprocess.run(['git','-C','/repo','log','--reverse','--format=%h','--grep=^verif:'], capture_output=True, text=True).stdout.split()
missing = [c for c in src.get('source_commits', []) if c not in hook_commits]
assert not missing, f'claims.json names commits that are not verif: commits in /repo: {missing}'
checks, na = [], []
for p in props:
    c = src['claimed'].get(p)
    if c:
        checks.append({
            "property_id": p,
            "quick_cmd": f"./check {p} quick",
            "thorough_cmd": f"./check {p} thorough",
            "evidence_file": f"/verif/evidence/{p}.json",
            "replay_cmd_template": f"./check {p} --replay {{path}}",
            "engine": "govc",
            "level_claimed": {"category": c['level'], "text": c['text'], "design_ref": f"DESIGN.md section 5, {p}"},
            "level_note": c['note'],
            "technique": "contract-based deductive verification (contracts in //@ comments on the real Go functions; VCs generated from go/ssa by govc; discharged by z3 5.1.0 / z3 4.8.12 / cvc5 1.0.3)",
        })
    else:
        na.append({"property_id": p, "reason": src['not_applicable'].get(p, "contracts for this property are not built yet (engine feature or contract work outstanding); see DESIGN.md section 5")})
m = {
 "version": 1,
 "setup_cmd": "./build.sh",
 "hooks": {
  "guard": "verif",
  "enable": "build tag `verif`: adds only comment-only contract files zz_verif_contracts.go (//go:build verif); govc loads /repo with -tags=verif",
  "baseline_off_cmd": "for m in . ./sdk/go/hydraidego; do (cd /repo/$m && go test -vet=off -count=1 -timeout 25m ./...); done",
  "source_commits": hook_commits,
  "add_only": True,
 },
 "engines": [{
   "name": "govc", "path": "/verif/govc", "serves_properties": [c['property_id'] for c in checks],
   "kind_free_text": "contract-based deductive verifier for Go built for this task: contracts as //@ comments in /repo (tag verif), verification conditions by symbolic execution of go/ssa (NaiveForm) of the real functions, modular calls, loop invariants, ghost lock state; SMT back ends z3 5.1.0, z3 4.8.12, cvc5 1.0.3"}],
 "checks": checks,
 "not_applicable": na,
 "notes": "See DESIGN.md. Baselines of discharged obligation names: /verif/baseline/<id>.obligations; known findings: /verif/known_findings.json; seeded breaking changes: /verif/seeded/.",
}
json.dump(m, open('/verif/MANIFEST.json', 'w'), indent=1)
print(len(checks), "claimed;", len(na), "not applicable")

#!/bin/sh
# usage: validate_mutant.sh <dir with patch.diff demo_test.go meta.json> <pkgdir relative to repo root>
# Confirms in a scratch worktree: demo passes w/o patch; with patch: builds, demo fails, existing package tests pass.
D=$1; PKG=$2
WT=/tmp/wt/val
[ -d $WT ] || { git -C /repo worktree add --detach -q $WT HEAD; }
cd $WT && git checkout -q --detach $(git -C /repo rev-parse HEAD) && git checkout -- . && git clean -fdq
cp $D/demo_test.go $WT/$PKG/zz_mutant_demo_test.go
echo "--- demo without patch (must pass)"
(cd $WT && go test -count=1 -vet=off -run 'Mutant|Demo|ZZ' ./$PKG/ 2>&1 | tail -3)
git -C $WT apply $D/patch.diff || { echo "PATCH DOES NOT APPLY"; exit 1; }
echo "--- build with patch"
(cd $WT && go build ./... 2>&1 | tail -3)
echo "--- demo with patch (must fail)"
(cd $WT && go test -count=1 -vet=off -run 'Mutant|Demo|ZZ' ./$PKG/ 2>&1 | tail -4)
rm $WT/$PKG/zz_mutant_demo_test.go
echo "--- existing tests with patch (must pass)"
(cd $WT && go test -count=1 -vet=off ./$PKG/ 2>&1 | tail -3)
cd $WT && git checkout -- . && git clean -fdq

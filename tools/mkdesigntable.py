#!/usr/bin/env python3
"""Regenerates the obligation counts of the DESIGN.md §0.3 table from
MANIFEST.json + evidence/*.json, keeping each row's hand-written note; adds a
row (note TODO) for a claimed property the table does not have yet."""
import json, re, sys
m = json.load(open('MANIFEST.json'))
kf = json.load(open('known_findings.json'))
lines = open('DESIGN.md').read().split('\n')
start = next(i for i, l in enumerate(lines) if l.startswith('| id | category |'))
end = start + 2
while end < len(lines) and lines[end].startswith('|'):
    end += 1
notes = {}
for l in lines[start + 2:end]:
    cells = [c.strip() for c in l.strip('|').split('|')]
    notes[cells[0]] = cells[3] if len(cells) > 3 else ''
rows = []
for c in m['checks']:
    pid = c['property_id']
    e = json.load(open(f'evidence/{pid}.json'))
    n = e['coverage'].get('obligations')
    openk = e['coverage'].get('known_finding_obligations', 0)
    cat = e.get('level', {}).get('category') if isinstance(e.get('level'), dict) else e.get('level')
    cell = str(n) + (f' (+{openk} known-finding obligations)' if openk else '')
    rows.append(f"| {pid} | {cat} | {cell} | {notes.get(pid, 'TODO')} |")
lines[start + 2:end] = rows
open('DESIGN.md', 'w').write('\n'.join(lines))
print(len(rows), 'rows')

#!/bin/sh
# usage: mkwt.sh <name>   -> creates /tmp/wt/<name>, a detached worktree of /repo HEAD without the contract files
set -e
mkdir -p /tmp/wt
git -C /repo worktree add --detach -q /tmp/wt/$1 HEAD
find /tmp/wt/$1 -name zz_verif_contracts.go -delete
echo /tmp/wt/$1

#!/bin/sh
# Runs every claimed check (quick) on the current /repo tree; prints one line per property.
cd /verif
for id in $(python3 -c "import json;print(' '.join(c['property_id'] for c in json.load(open('MANIFEST.json'))['checks']))"); do
  ./check $id quick 2>&1 | grep -E "VIOLATION|^check|KNOWN|VACUITY" | cut -c1-200
done

#!/bin/sh
# usage: rebaseline_one.sh <PROP>...   union of the committed baseline and what discharges now (see rebaseline_all.sh)
cd /verif
for id in "$@"; do
  cp baseline/$id.obligations /dev/shm/old.$id 2>/dev/null || : > /dev/shm/old.$id
  bin/govc baseline $id | tail -1
  (head -1 baseline/$id.obligations; (tail -n +2 baseline/$id.obligations; grep -v '^#' /dev/shm/old.$id) | sort -u) > /dev/shm/new.$id
  cp /dev/shm/new.$id baseline/$id.obligations
done

#!/bin/sh
# usage: trymutant.sh <patch.diff> <PROP>...   applies the patch to /repo, runs the quick checks, reverts
P=$1; shift
git -C /repo diff --quiet || { echo "REPO HAS UNCOMMITTED CHANGES - commit first"; exit 3; }
cd /repo && git apply $P || { echo "PATCH DOES NOT APPLY"; exit 2; }
for id in "$@"; do (cd /verif && ./check $id quick 2>&1 | grep -E "VIOLATION|^check|KNOWN" | cut -c1-260); done
cd /repo && git checkout -- . 

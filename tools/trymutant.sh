#!/bin/sh
# usage: trymutant.sh <patch.diff> <PROP>...   applies the patch to the tree under test, runs the quick checks, reverts
# The tree is /repo, or the scratch clone named by REPO (then GOVC_REPO is set for govc).
P=$1; shift
R=${REPO:-/repo}
[ "$R" = /repo ] || export GOVC_REPO=$R
git -C $R diff --quiet || { echo "REPO HAS UNCOMMITTED CHANGES - commit first"; exit 3; }
cd $R && git apply $P || { echo "PATCH DOES NOT APPLY"; exit 2; }
# evidence of runs on the broken tree goes to scratch, never to /verif/evidence
GOVC_EVIDENCE_DIR=$(mktemp -d /dev/shm/mutev.XXXXXX); export GOVC_EVIDENCE_DIR
for id in "$@"; do (cd /verif && ./check $id quick 2>&1 | grep -E "VIOLATION|^check|KNOWN" | cut -c1-260); done
cd $R && git checkout -- . 
rm -rf "$GOVC_EVIDENCE_DIR"

#!/bin/sh
# Must-fail selftest: applies every seeded breaking change under /verif/seeded to /repo (reverted afterwards),
# runs the property's quick check and compares with meta.json's detected_by_check.
# Evidence of these runs goes to scratch (GOVC_EVIDENCE_DIR), never to /verif/evidence.
# usage: selftest.sh [PROP ...]   (default: all)
cd /verif
sel="$*"
bad=0
for d in seeded/*-*; do
  p=${d#seeded/}; prop=${p%-*}
  [ -n "$sel" ] && { echo " $sel " | grep -q " $prop " || continue; }
  exp=$(python3 -c "import json;print(json.load(open('$d/meta.json')).get('detected_by_check'))")
  # meta.json may name the checks that are expected to report the change ("checked_by"); default: its own property
  by=$(python3 -c "import json;print(' '.join(json.load(open('$d/meta.json')).get('checked_by',['$prop'])))")
  out=$(tools/trymutant.sh /verif/$d/patch.diff $by 2>&1)
  if echo "$out" | grep -q '^VIOLATION'; then got=True; else got=False; fi
  st=same; [ "$exp" = "$got" ] || { st=CHANGED; bad=1; }
  echo "$p expected_detected=$exp detected=$got $st $(echo "$out" | grep -c '^VIOLATION') violation line(s)"
  echo "$out" | grep -E 'PATCH|UNCOMMITTED' 
done
exit $bad

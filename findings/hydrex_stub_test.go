// Replaces sdk/go/hydraidego/hydrex/hydrex_test.go through the overlay: the package's own tests need a live
// server (TestMain exits when it cannot connect); the demonstration below uses an in-memory store instead.
package hydrex

// Demonstration for the C03 finding (package app/core/hydra/swamp/chronicler/v2):
// run with  cd /repo && go test -overlay <ov.json> -vet=off -count=1 -run TestVerifStaleCompactTemp ./app/core/hydra/swamp/chronicler/v2/
// Fails before the fix commit (a deleted key comes back after Compactor.Compact), passes after it.
package v2

import (
	"path/filepath"
	"testing"
)

func TestVerifStaleCompactTemp(t *testing.T) {
	dir := t.TempDir()
	path := filepath.Join(dir, "s.hyd")
	// a leftover temp of an interrupted compaction, holding a record that was later deleted
	stale, err := NewFileWriterWithName(path+".compact", 0, "a/b/c")
	if err != nil {
		t.Fatal(err)
	}
	_ = stale.WriteEntry(Entry{Operation: OpInsert, Key: "ghost", Data: []byte("old")})
	_ = stale.Close()
	// the real file: ghost inserted then deleted, live inserted
	w, err := NewFileWriterWithName(path, 0, "a/b/c")
	if err != nil {
		t.Fatal(err)
	}
	_ = w.WriteEntry(Entry{Operation: OpInsert, Key: "ghost", Data: []byte("old")})
	_ = w.WriteEntry(Entry{Operation: OpDelete, Key: "ghost"})
	_ = w.WriteEntry(Entry{Operation: OpInsert, Key: "live", Data: []byte("v")})
	_ = w.Close()
	c := NewCompactor(path, 0, 0.1)
	if _, err := c.ForceCompact(); err != nil {
		t.Fatal(err)
	}
	r, err := NewFileReader(path)
	if err != nil {
		t.Fatal(err)
	}
	defer r.Close()
	idx, _, err := r.LoadIndex()
	if err != nil {
		t.Fatal(err)
	}
	if _, ok := idx["ghost"]; ok || len(idx) != 1 {
		t.Fatalf("compaction changed the live set: %d keys, ghost resurrected=%v", len(idx), ok)
	}
}

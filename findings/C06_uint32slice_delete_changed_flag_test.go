// package directory: app/core/hydra/swamp/treasure
//
// Demonstration (properties C06 / C19): Uint32SliceDelete flagged the record as changed when an element
// was KEPT instead of when one was REMOVED. Consequences through swamp.SaveFunction: deleting a value
// that is not in the slice reports "modified" (a write and a change event for no change), and deleting
// every element of the slice reports "same" (the emptied value is neither written nor announced).
//
// Run: cd /repo && go test -overlay <ov.json> -vet=off -count=1 -run TestVerifC06Uint32SliceDeleteChangedFlag ./app/core/hydra/swamp/treasure/
package treasure

import (
	"testing"

	"github.com/hydraide/hydraide/app/core/hydra/swamp/treasure/guard"
)

func TestVerifC06Uint32SliceDeleteChangedFlag(t *testing.T) {
	mk := func() *treasure {
		tr := New(func(Treasure, guard.ID) TreasureStatus { return StatusSame }).(*treasure)
		if err := tr.Uint32SlicePush([]uint32{1, 2}); err != nil {
			t.Fatal(err)
		}
		tr.contentChanged = false // as after a completed save
		return tr
	}
	a := mk()
	if err := a.Uint32SliceDelete([]uint32{9}); err != nil {
		t.Fatal(err)
	}
	if a.IsContentChanged() {
		t.Errorf("deleting a value that is not in the slice flagged the record as changed")
	}
	b := mk()
	if err := b.Uint32SliceDelete([]uint32{1, 2}); err != nil {
		t.Fatal(err)
	}
	if n, _ := b.Uint32SliceSize(); n != 0 {
		t.Fatalf("size %d after deleting every element", n)
	}
	if !b.IsContentChanged() {
		t.Errorf("deleting every element of the slice did not flag the record as changed")
	}
}

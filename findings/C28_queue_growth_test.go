// Demonstration for the C28 finding (package app/core/hydra/lock): after every lock has been
// released the per-key queues are still in the sync.Map.
// cd /repo && go test -overlay <ov.json> -vet=off -count=1 -run TestVerifQueueGrowth ./app/core/hydra/lock/
package lock

import (
	"context"
	"fmt"
	"testing"
	"time"
)

func TestVerifQueueGrowth(t *testing.T) {
	l := New().(*lock)
	for i := 0; i < 1000; i++ {
		k := fmt.Sprintf("key-%d", i)
		id, err := l.Lock(context.Background(), k, time.Minute)
		if err != nil {
			t.Fatal(err)
		}
		if err := l.Unlock(k, id); err != nil {
			t.Fatal(err)
		}
	}
	n := 0
	l.queues.Range(func(_, _ any) bool { n++; return true })
	if n != 0 {
		t.Fatalf("%d per-key queues kept although no key is locked or waited on", n)
	}
}

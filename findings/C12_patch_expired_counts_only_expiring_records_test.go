// package directory: app/server/gateway
//
// Demonstration (property C12: cap-bearing operations never push the match count above the cap):
// PatchExpiredTreasures with a Cap counted the records that already match Cap.Filter only among the records
// of the EXPIRY INDEX (records that carry an expiry). Records that match the filter but have no expiry were
// not counted, so the budget was too large and the operation pushed the number of matching records above
// MaxMatching. History: 2 "claimed" records without expiry (cap 2 is full); 2 expired "pending" records;
// PatchExpired(set status=claimed, Cap{status==claimed, max 2}) must patch nothing.
//
// Run: cd /repo && go test -overlay <ov.json> -vet=off -count=1 -run TestVerifC12PatchExpiredCapCountsAllRecords ./app/server/gateway/
package gateway

import (
	"context"
	"testing"
	"time"

	hydrapb "github.com/hydraide/hydraide/sdk/go/hydraidego/v3/hydraidepbgo"
	"github.com/stretchr/testify/require"
	"google.golang.org/protobuf/types/known/timestamppb"
)

func TestVerifC12PatchExpiredCapCountsAllRecords(t *testing.T) {
	rig := newGatewayPatchTestRig(t, "gw-verif-c12", "cap", "any")
	swamp := "gw-verif-c12/cap/any"
	// two records that already match the cap filter and never expire
	for _, k := range []string{"held-1", "held-2"} {
		_, err := rig.gw.PatchTreasures(context.Background(), &hydrapb.PatchTreasuresRequest{
			IslandID: rig.islandID, SwampName: swamp, CreateIfNotExist: true,
			Patches: []*hydrapb.TreasurePatch{{Key: k, Ops: []*hydrapb.PatchOp{{Op: hydrapb.PatchOp_SET, Path: "status", Value: encMsgpack(t, "claimed")}}}},
		})
		require.NoError(t, err)
	}
	// two expired records that do not match yet
	for i := 0; i < 2; i++ {
		seedTreasureWithBody(t, rig, swamp, gatewayKey(i), "pending", time.Hour)
	}
	capFilter := &hydrapb.FilterGroup{Logic: hydrapb.FilterLogic_AND, Filters: []*hydrapb.TreasureFilter{{
		BytesFieldPath: protoStr("status"), Operator: hydrapb.Relational_EQUAL,
		CompareValue: &hydrapb.TreasureFilter_StringVal{StringVal: "claimed"},
	}}}
	resp, err := rig.gw.PatchExpiredTreasures(context.Background(), &hydrapb.PatchExpiredTreasuresRequest{
		IslandID: rig.islandID, SwampName: swamp, HowMany: 100,
		Ops:  []*hydrapb.PatchOp{{Op: hydrapb.PatchOp_SET, Path: "status", Value: encMsgpack(t, "claimed")}},
		Meta: &hydrapb.PatchMeta{SetExpiredAt: timestamppb.New(time.Now().UTC().Add(time.Hour))},
		Cap:  &hydrapb.Cap{Filter: capFilter, MaxMatching: 2},
	})
	require.NoError(t, err)
	require.Empty(t, resp.GetPatched(), "2 records already match the cap filter (max 2): nothing may be patched into it; patched %d", len(resp.GetPatched()))
}

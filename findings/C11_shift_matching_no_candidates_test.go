// package directory: app/server/gateway
//
// Demonstration (property C11: claims hand out MATCHING records): ShiftMatchingTreasures with an
// indexable filter (status == "nothing-has-this") that matches no record must claim nothing.
// Before the fix, candidateKeySet returned nil for an empty candidate list and the selection predicate
// treated a nil set as "no fast-reject", evaluating only the residual filter (empty => true), so every
// record of the swamp was claimed and deleted.
//
// Run: cd /repo && go test -overlay <ov.json> -vet=off -count=1 -run TestVerifC11ShiftMatchingNoCandidates ./app/server/gateway/
package gateway

import (
	"context"
	"testing"
	"time"

	hydrapb "github.com/hydraide/hydraide/sdk/go/hydraidego/v3/hydraidepbgo"
	"github.com/stretchr/testify/require"
)

func TestVerifC11ShiftMatchingNoCandidates(t *testing.T) {
	rig := newGatewayPatchTestRig(t, "gw-verif-c11", "nocand", "any")
	swamp := "gw-verif-c11/nocand/any"
	for i := 0; i < 5; i++ {
		seedTreasureWithBody(t, rig, swamp, gatewayKey(i), "pending", time.Hour)
	}
	filters := &hydrapb.FilterGroup{
		Logic: hydrapb.FilterLogic_AND,
		Filters: []*hydrapb.TreasureFilter{{
			BytesFieldPath: protoStr("status"),
			Operator:       hydrapb.Relational_EQUAL,
			CompareValue:   &hydrapb.TreasureFilter_StringVal{StringVal: "nothing-has-this"},
		}},
	}
	resp, err := rig.gw.ShiftMatchingTreasures(context.Background(), &hydrapb.ShiftMatchingTreasuresRequest{
		IslandID:  rig.islandID,
		SwampName: swamp,
		IndexType: hydrapb.IndexType_KEY,
		OrderType: hydrapb.OrderType_ASC,
		HowMany:   100,
		Filters:   filters,
	})
	require.NoError(t, err)
	require.Len(t, resp.GetTreasures(), 0, "no record matches the filter: nothing may be claimed")
}

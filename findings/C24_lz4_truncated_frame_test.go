package compressor

// Known finding C24 (open): an LZ4 frame that is cut off exactly at a block boundary (a truncated file)
// decompresses WITHOUT an error to a strict prefix of the original data. pierrec/lz4 v2.6.1's Reader
// treats the end of its input at a block boundary as the end of the frame (it never sees the end mark,
// so it never verifies the content checksum either) and decompressLZ4 adds no check of its own.
// Run: go test -overlay <overlay placing this file in app/core/compressor> -vet=off -run TestFindingC24LZ4TruncatedFrame ./app/core/compressor/
// The test FAILS on the pinned tree (that is the finding).

import (
	"bytes"
	"encoding/binary"
	"testing"
)

func TestFindingC24LZ4TruncatedFrame(t *testing.T) {
	c := New(LZ4)
	in := bytes.Repeat([]byte("0123456789abcdefghijklmnopqrstuvwxyz-HydrAIDE-"), 200000) // 9.2 MB: three 4 MiB blocks
	comp, err := c.Compress(in)
	if err != nil {
		t.Fatal(err)
	}
	// frame = magic(4) FLG BD [size(8) if FLG bit 3] HC, then blocks: length word (top bit: stored raw) + data
	off := 7
	if comp[4]&0x08 != 0 {
		off += 8
	}
	n := int(binary.LittleEndian.Uint32(comp[off:]) &^ (1 << 31))
	cut := off + 4 + n // end of the first block
	if cut >= len(comp) {
		t.Skip("single block frame")
	}
	out, err := c.Decompress(comp[:cut])
	if err == nil && !bytes.Equal(out, in) {
		t.Fatalf("frame cut at %d of %d bytes (a block boundary): nil error, %d bytes returned instead of %d", cut, len(comp), len(out), len(in))
	}
}

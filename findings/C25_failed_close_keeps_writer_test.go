// Demonstration for a C25 finding (package app/core/hydra/swamp/chronicler): when the writer's
// Close fails inside runCompactionLocked (disk full during the final flush), the chronicler keeps
// the writer although its file descriptor has been closed; after the fault clears, every later
// write is lost ("file already closed") until the swamp is evicted.
// cd /repo && go test -overlay <ov.json> -vet=off -count=1 -run TestVerifFailedCloseKeepsWriter ./app/core/hydra/swamp/chronicler/
package chronicler

import (
	"fmt"
	"os/signal"
	"path/filepath"
	"syscall"
	"testing"

	"github.com/hydraide/hydraide/app/core/hydra/swamp/beacon"
	"github.com/hydraide/hydraide/app/core/hydra/swamp/treasure"
	"github.com/hydraide/hydraide/app/core/hydra/swamp/treasure/guard"
)

func verifTreasures(from, n int) []treasure.Treasure {
	ts := make([]treasure.Treasure, n)
	for i := 0; i < n; i++ {
		tr := treasure.New(nil)
		g := tr.StartTreasureGuard(false, guard.BodyAuthID)
		tr.BodySetKey(g, fmt.Sprintf("key-%d", from+i))
		tr.SetContentString(g, fmt.Sprintf("content-%d", from+i))
		tr.ReleaseTreasureGuard(g)
		ts[i] = tr
	}
	return ts
}

func TestVerifFailedCloseKeepsWriter(t *testing.T) {
	dir := t.TempDir()
	c := NewV2WithName(filepath.Join(dir, "s"), 10, "a/b/c").(*chroniclerV2)
	c.CreateDirectoryIfNotExists()
	c.Write(verifTreasures(0, 5)) // buffered, not yet flushed
	// disk full: the final flush performed by writer.Close() inside the compaction fails
	signal.Ignore(syscall.SIGXFSZ)
	var old syscall.Rlimit
	if err := syscall.Getrlimit(syscall.RLIMIT_FSIZE, &old); err != nil {
		t.Fatal(err)
	}
	if err := syscall.Setrlimit(syscall.RLIMIT_FSIZE, &syscall.Rlimit{Cur: 70, Max: old.Max}); err != nil {
		t.Fatal(err)
	}
	ferr := c.ForceCompaction()
	if err := syscall.Setrlimit(syscall.RLIMIT_FSIZE, &old); err != nil {
		t.Fatal(err)
	}
	if ferr == nil {
		t.Skip("fault was not injected")
	}
	// fault cleared: later writes must be stored and recoverable
	c.Write(verifTreasures(100, 5))
	serr := c.Sync()
	cerr := c.Close()
	b := beacon.New()
	NewV2WithName(filepath.Join(dir, "s"), 10, "a/b/c").Load(b)
	if b.Count() < 5 || serr != nil || cerr != nil {
		t.Fatalf("after the fault cleared: Sync=%v Close=%v, %d records recoverable (the 5 written after the fault are lost)", serr, cerr, b.Count())
	}
}

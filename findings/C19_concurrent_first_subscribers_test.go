package hydra

import (
	"sync"
	"testing"

	"github.com/google/uuid"
	"github.com/hydraide/hydraide/app/core/hydra/swamp"
	"github.com/hydraide/hydraide/app/name"
)

// Fixed finding C19 (f5714a0): PASSES on the repaired tree, FAILED before (about 1 round in 100 lost a subscription).
// Run: go test -overlay <overlay placing this file in app/core/hydra> -vet=off -run TestFindingC19ConcurrentFirstSubscribers ./app/core/hydra/
// Two clients that subscribe to the same swamp at the same time, when the swamp has no subscriber yet:
// both must be registered afterwards (each must receive the swamp's events).
func TestFindingC19ConcurrentFirstSubscribers(t *testing.T) {
	lost := 0
	const rounds = 20000
	for i := 0; i < rounds; i++ {
		h := &hydra{}
		n := name.New().Sanctuary("s").Realm("r").Swamp("w")
		a, b := uuid.New(), uuid.New()
		var start, done sync.WaitGroup
		start.Add(1)
		done.Add(2)
		for _, id := range []uuid.UUID{a, b} {
			id := id
			go func() {
				defer done.Done()
				start.Wait()
				if err := h.SubscribeToSwampEvents(id, n, func(e *swamp.Event) {}); err != nil {
					t.Error(err)
				}
			}()
		}
		start.Done()
		done.Wait()
		subs, ok := h.eventSubscribers.Load(n.Get())
		if !ok {
			t.Fatal("no subscriber table")
		}
		cnt := 0
		subs.(*sync.Map).Range(func(k, v interface{}) bool { cnt++; return true })
		if cnt != 2 {
			lost++
		}
	}
	if lost > 0 {
		t.Fatalf("%d of %d rounds: a successfully subscribed client is not registered (its subscription was overwritten)", lost, rounds)
	}
}

package gateway

// Fixed finding C19 (d31bd4e): PASSES on the repaired tree, FAILED before (390 of 400 sends overlapped).
// Run: rm -rf app/server/gateway/{data,settings}; go test -overlay <overlay placing this file in app/server/gateway> -vet=off -run TestFindingC19ConcurrentSendOnOneStream ./app/server/gateway/
// Finding C19: the event callback the gateway registers calls SendMsg on the subscriber's gRPC stream on
// the WRITER's goroutine. Writers of different records of one swamp run in parallel, so SendMsg is entered
// concurrently on one stream, which gRPC forbids ("it is not safe to call SendMsg on the same stream in
// different goroutines") and which can interleave frames. The fake stream below only observes whether two
// SendMsg calls overlap.

import (
	"context"
	"fmt"
	"sync"
	"sync/atomic"
	"testing"
	"time"

	"github.com/hydraide/hydraide/app/name"
	hydrapb "github.com/hydraide/hydraide/sdk/go/hydraidego/v3/hydraidepbgo"
	"github.com/stretchr/testify/require"
	"google.golang.org/grpc"
	"google.golang.org/grpc/metadata"
)

type overlapStream struct {
	grpc.ServerStream
	ctx      context.Context
	inflight int32
	overlaps int32
	sent     int32
}

func (s *overlapStream) Context() context.Context       { return s.ctx }
func (s *overlapStream) SetHeader(metadata.MD) error    { return nil }
func (s *overlapStream) SendHeader(metadata.MD) error   { return nil }
func (s *overlapStream) SetTrailer(metadata.MD)         {}
func (s *overlapStream) RecvMsg(m interface{}) error    { return nil }
func (s *overlapStream) Send(*hydrapb.SubscribeToEventsResponse) error { return s.SendMsg(nil) }
func (s *overlapStream) SendMsg(m interface{}) error {
	if atomic.AddInt32(&s.inflight, 1) > 1 {
		atomic.AddInt32(&s.overlaps, 1)
	}
	time.Sleep(200 * time.Microsecond) // a frame takes time to write
	atomic.AddInt32(&s.sent, 1)
	atomic.AddInt32(&s.inflight, -1)
	return nil
}

func TestFindingC19ConcurrentSendOnOneStream(t *testing.T) {
	rig := newStreamVigilRig(t, "evsend", "r", "s")
	rig.summonAndSeed(t, "seed")
	ctx, cancel := context.WithCancel(context.Background())
	st := &overlapStream{ctx: ctx}
	done := make(chan error, 1)
	go func() {
		done <- rig.gw.SubscribeToEvents(&hydrapb.SubscribeToEventsRequest{IslandID: rig.islandID, SwampName: rig.swampName}, st)
	}()
	time.Sleep(200 * time.Millisecond) // let the subscription register

	hydraInterface := rig.gw.ZeusInterface.GetHydra()
	swampObj, err := hydraInterface.SummonSwamp(context.Background(), rig.islandID, name.Load(rig.swampName))
	require.NoError(t, err)
	swampObj.BeginVigil()
	var wg sync.WaitGroup
	for w := 0; w < 8; w++ {
		wg.Add(1)
		go func(w int) {
			defer wg.Done()
			for i := 0; i < 50; i++ {
				tr := swampObj.CreateTreasure(fmt.Sprintf("k-%d-%d", w, i))
				gid := tr.StartTreasureGuard(true)
				tr.SetContentString(gid, "v")
				tr.Save(gid)
				tr.ReleaseTreasureGuard(gid)
			}
		}(w)
	}
	wg.Wait()
	swampObj.CeaseVigil()
	cancel()
	<-done
	require.Greater(t, atomic.LoadInt32(&st.sent), int32(0), "events must have been sent")
	if n := atomic.LoadInt32(&st.overlaps); n > 0 {
		t.Fatalf("SendMsg was entered concurrently on one stream %d times (of %d events)", n, st.sent)
	}
}

package compressor

// Known finding C24 (open): the Snappy block format carries no checksum, and decompressSnappy adds none:
// a damaged byte inside a literal run decompresses WITHOUT an error to different data.
// (The V2 storage engine protects its blocks with its own CRC; the V1 chronicler and filesystem paths
// that use this compressor directly do not.)
// The test FAILS on the pinned tree (that is the finding).

import (
	"bytes"
	"testing"
)

func TestFindingC24SnappyDamagedLiteral(t *testing.T) {
	c := New(Snappy)
	in := []byte("HydrAIDE stores treasures in swamps; this sentence has no repetition worth a copy op.")
	comp, err := c.Compress(in)
	if err != nil {
		t.Fatal(err)
	}
	damaged := append([]byte(nil), comp...)
	damaged[len(damaged)-3] ^= 0x01 // a byte of the literal run
	out, err := c.Decompress(damaged)
	if err == nil && !bytes.Equal(out, in) {
		t.Fatalf("damaged snappy block: nil error, different data returned: %q", out)
	}
}

// package directory: app/server/gateway
//
// Demonstration (property C06: every request returns; the API behaves like a simple key-value
// model): Uint32SliceDelete that removes the LAST element of a slice value.
// The handler holds the record's guard and, finding the slice empty, calls swamp.DeleteTreasure for the
// same key, whose delete handler waits for that record's guard -- held by the same request.
//
// Run: cd /repo && go test -overlay <ov.json> -vet=off -count=1 -timeout 60s -run TestVerifC06Uint32SliceDeleteLast ./app/server/gateway/
package gateway

import (
	"context"
	"testing"
	"time"

	hydrapb "github.com/hydraide/hydraide/sdk/go/hydraidego/v3/hydraidepbgo"
	"github.com/stretchr/testify/require"
)

func TestVerifC06Uint32SliceDeleteLast(t *testing.T) {
	rig := newGatewayPatchTestRig(t, "gw-verif-c06", "slice", "any")
	swamp := "gw-verif-c06/slice/any"
	_, err := rig.gw.Uint32SlicePush(context.Background(), &hydrapb.AddToUint32SlicePushRequest{
		IslandID:      rig.islandID,
		SwampName:     swamp,
		KeySlicePairs: []*hydrapb.KeySlicePair{{Key: "k", Values: []uint32{7}}},
	})
	require.NoError(t, err)

	done := make(chan error, 1)
	go func() {
		_, err := rig.gw.Uint32SliceDelete(context.Background(), &hydrapb.Uint32SliceDeleteRequest{
			IslandID:      rig.islandID,
			SwampName:     swamp,
			KeySlicePairs: []*hydrapb.KeySlicePair{{Key: "k", Values: []uint32{7}}},
		})
		done <- err
	}()
	select {
	case err := <-done:
		require.NoError(t, err)
	case <-time.After(5 * time.Second):
		t.Fatal("Uint32SliceDelete of the last element did not return within 5 s (the request waits for a record guard it holds itself)")
	}
}

// package directory: app/core/hydra/swamp/beacon
//
// Demonstration (property C10: no unsynchronised access to shared memory): beacon.GetAll returned the
// index's INTERNAL key map. The caller iterates it after the read lock has been released, so a concurrent
// Add / Delete writes the map while it is being iterated (Go's unrecoverable "concurrent map iteration
// and map write"). Deterministic form of the same fact: a map obtained from GetAll changes when the
// index changes afterwards.
//
// Run: cd /repo && go test -overlay <ov.json> -vet=off -count=1 -run TestVerifC10GetAllIsASnapshot ./app/core/hydra/swamp/beacon/
package beacon

import (
	"testing"

	"github.com/hydraide/hydraide/app/core/hydra/swamp/treasure"
	"github.com/hydraide/hydraide/app/core/hydra/swamp/treasure/guard"
)

func TestVerifC10GetAllIsASnapshot(t *testing.T) {
	mk := func(key string) treasure.Treasure {
		tr := treasure.New(func(treasure.Treasure, guard.ID) treasure.TreasureStatus { return treasure.StatusSame })
		g := tr.StartTreasureGuard(true, guard.BodyAuthID)
		tr.BodySetKey(g, key)
		tr.ReleaseTreasureGuard(g)
		return tr
	}
	b := New()
	b.Add(mk("a"))
	all := b.GetAll()
	if len(all) != 1 {
		t.Fatalf("want 1 record, got %d", len(all))
	}
	b.Add(mk("b"))
	b.Delete("a")
	if _, ok := all["b"]; ok || len(all) != 1 {
		t.Fatalf("the map returned by GetAll is the index's live map: it changed to %d entries after Add/Delete (it is read by callers without the index lock)", len(all))
	}
}

// package directory: sdk/go/hydraidego/hydrex
//
// Demonstration (property C27: reading a domain returns exactly its last saved items): Hydrex.Save saved
// only keys that were NEW for the domain; a key that the domain already had kept its OLD value when it was
// saved again with a different value. The SDK interface is replaced by an in-memory store (only the five
// catalog calls Hydrex uses), so this runs the real Save / GetCoreData code without a server.
//
// Run (from /repo/sdk/go/hydraidego): go test -overlay <ov.json> -vet=off -count=1 -run TestVerifC27 ./hydrex/
// with the overlay mapping hydrex_test.go -> findings/hydrex_stub_test.go and zz_verif_c27_test.go -> this file.
package hydrex

import (
	"context"
	"sort"
	"testing"

	hydraidego "github.com/hydraide/hydraide/sdk/go/hydraidego/v3"
	"github.com/hydraide/hydraide/sdk/go/hydraidego/v3/name"
)

type verifMemStore struct {
	hydraidego.Hydraidego // every other method: nil interface, never called by Hydrex
	core                  map[string]map[string]*CoreData
	index                 map[string]map[string]*IndexedData
}

func (s *verifMemStore) RegisterSwamp(context.Context, *hydraidego.RegisterSwampRequest) []error { return nil }

func (s *verifMemStore) CatalogReadMany(_ context.Context, n name.Name, _ *hydraidego.Index, model any, it hydraidego.CatalogReadManyIteratorFunc) error {
	switch model.(type) {
	case CoreData:
		var keys []string
		for k := range s.core[n.Get()] {
			keys = append(keys, k)
		}
		sort.Strings(keys)
		for _, k := range keys {
			c := *s.core[n.Get()][k]
			if err := it(&c); err != nil {
				return err
			}
		}
	case IndexedData:
		for _, v := range s.index[n.Get()] {
			c := *v
			if err := it(&c); err != nil {
				return err
			}
		}
	}
	return nil
}

func (s *verifMemStore) CatalogDeleteMany(_ context.Context, n name.Name, keys []string, _ hydraidego.CatalogDeleteIteratorFunc) error {
	for _, k := range keys {
		delete(s.core[n.Get()], k)
	}
	return nil
}

func (s *verifMemStore) CatalogDeleteManyFromMany(_ context.Context, reqs []*hydraidego.CatalogDeleteManyFromManyRequest, _ hydraidego.CatalogDeleteIteratorFunc) error {
	for _, r := range reqs {
		for _, k := range r.Keys {
			delete(s.index[r.SwampName.Get()], k)
		}
	}
	return nil
}

func (s *verifMemStore) CatalogSaveMany(_ context.Context, n name.Name, models []any, _ hydraidego.CatalogSaveManyIteratorFunc) error {
	if s.core[n.Get()] == nil {
		s.core[n.Get()] = map[string]*CoreData{}
	}
	for _, m := range models {
		c := *(m.(*CoreData))
		s.core[n.Get()][c.Key] = &c
	}
	return nil
}

func (s *verifMemStore) CatalogSaveManyToMany(_ context.Context, reqs []*hydraidego.CatalogManyToManyRequest, _ hydraidego.CatalogSaveManyToManyIteratorFunc) error {
	for _, r := range reqs {
		if s.index[r.SwampName.Get()] == nil {
			s.index[r.SwampName.Get()] = map[string]*IndexedData{}
		}
		for _, m := range r.Models {
			c := *(m.(*IndexedData))
			s.index[r.SwampName.Get()][c.Domain] = &c
		}
	}
	return nil
}

func TestVerifC27ChangedValueIsSaved(t *testing.T) {
	st := &verifMemStore{core: map[string]map[string]*CoreData{}, index: map[string]map[string]*IndexedData{}}
	h := New(st)
	ctx := context.Background()
	h.Save(ctx, "idx", "example.com", map[string]*CoreData{"k": {Key: "k", Value: "first"}})
	h.Save(ctx, "idx", "example.com", map[string]*CoreData{"k": {Key: "k", Value: "second"}})
	got := h.GetCoreData(ctx, "idx", "example.com")
	if len(got) != 1 || got[0].Value != "second" {
		v := "<none>"
		if len(got) > 0 {
			v = got[0].Value
		}
		t.Fatalf("after saving k=first and then k=second the domain reads back k=%s (%d item(s)): the last saved value is not stored", v, len(got))
	}
}

// package directory: app/core/hydra/swamp/treasure
//
// Demonstration (property C10): a record setter (here SetContentString, called under the record guard as
// every writer does) writes the record's model without t.mu, while readers (GetContentString) read it
// under t.mu.RLock only: an unsynchronised write/read pair. Run under the race detector:
//
//   cd /repo && go test -race -overlay <ov.json> -vet=off -count=1 -run TestVerifC10SetterReaderRace ./app/core/hydra/swamp/treasure/
//
// (reports "WARNING: DATA RACE" and fails; without -race the test passes, the race is silent).
package treasure

import (
	"sync"
	"testing"

	"github.com/hydraide/hydraide/app/core/hydra/swamp/treasure/guard"
)

func TestVerifC10SetterReaderRace(t *testing.T) {
	tr := New(func(Treasure, guard.ID) TreasureStatus { return StatusSame })
	var wg sync.WaitGroup
	wg.Add(2)
	go func() {
		defer wg.Done()
		for i := 0; i < 2000; i++ {
			g := tr.StartTreasureGuard(true)
			tr.SetContentString(g, "value")
			tr.ReleaseTreasureGuard(g)
		}
	}()
	go func() {
		defer wg.Done()
		for i := 0; i < 2000; i++ {
			_, _ = tr.GetContentString()
		}
	}()
	wg.Wait()
}

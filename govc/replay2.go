package main

// Replay of a solver counterexample on the REAL code.
//
//  1. The refuted obligation's query (path condition and negated goal) is re-run in an interactive
//     z3 session; the values of the function's inputs (parameters and everything reachable from them in
//     the entry heap) are read from the model with get-value.
//  2. A Go test is generated (in the package of the function, injected with `go test -overlay`, nothing
//     is written into /repo) that rebuilds those inputs by reflection, calls the real function and dumps
//     the results and the post-state of the parameters (or the panic value).
//  3. Verdict. Panic-freedom obligations: reproduced iff the real call panics. Postconditions: the real
//     outputs are pinned onto the symbolic results / exit heap of the obligation's path; the violation
//     is reproduced iff  PC ∧ inputs ∧ outputs ∧ ¬goal  is satisfiable (the real run is a run of this path
//     that violates the clause) and  PC ∧ inputs ∧ outputs ∧ goal  is unsatisfiable (no reading of the
//     unpinned parts makes the clause true).
//
// Anything that cannot be rebuilt (non-nil interfaces, maps, channels, function values, floats that the
// goal depends on, functions that may touch the file system or the network) ends in "not reproduced",
// never in a guess.

import (
	"bufio"
	"bytes"
	"context"
	"encoding/json"
	"fmt"
	"go/types"
	"io"
	"math/big"
	"os"
	"os/exec"
	"path/filepath"
	"sort"
	"strings"
	"time"

	"golang.org/x/tools/go/ssa"
)

const modulePrefix = "github.com/hydraide/hydraide"

// RNode is the concrete value tree exchanged with the generated test (same struct on both sides).
type RNode struct {
	K string   `json:"k"`
	V string   `json:"v,omitempty"`
	B []byte   `json:"b,omitempty"`
	R string   `json:"r,omitempty"`
	O int      `json:"o,omitempty"`
	L int      `json:"l,omitempty"`
	C int      `json:"c,omitempty"`
	E []*RNode `json:"e,omitempty"`
	T string   `json:"t,omitempty"`
}

type replayOut struct {
	Panic   string   `json:"panic"`
	Results []*RNode `json:"results"`
	Params  []*RNode `json:"params"`
}

// ---------- interactive solver session ----------

type smtSession struct {
	cmd *exec.Cmd
	in  io.WriteCloser
	out *bufio.Reader
	log bytes.Buffer
	kill *time.Timer
}

func newSession(timeoutS int) (*smtSession, error) {
	cmd := exec.Command("z3-new", "-in", "-smt2", fmt.Sprintf("-t:%d", timeoutS*1000))
	in, err := cmd.StdinPipe()
	if err != nil {
		return nil, err
	}
	out, err := cmd.StdoutPipe()
	if err != nil {
		return nil, err
	}
	cmd.Stderr = nil
	if err := cmd.Start(); err != nil {
		return nil, err
	}
	// hard wall-clock bound for the whole session: -t bounds one check-sat, not model construction, and a
	// read from a wedged solver never returns
	total := 2 * timeoutS
	if total < 45 {
		total = 45
	}
	kill := time.AfterFunc(time.Duration(total)*time.Second, func() { cmd.Process.Kill() })
	return &smtSession{cmd: cmd, in: in, out: bufio.NewReaderSize(out, 1<<20), kill: kill}, nil
}

func (s *smtSession) close() {
	if s.kill != nil {
		s.kill.Stop()
	}
	s.in.Close()
	done := make(chan struct{})
	go func() { s.cmd.Wait(); close(done) }()
	select {
	case <-done:
	case <-time.After(2 * time.Second):
		s.cmd.Process.Kill()
	}
}

func (s *smtSession) send(text string) {
	s.log.WriteString(text)
	io.WriteString(s.in, text)
}

// readSexp reads one atom or one balanced s-expression from the solver.
func (s *smtSession) readSexp() (string, error) {
	var b strings.Builder
	depth := 0
	started := false
	inStr := false
	deadline := time.Now().Add(90 * time.Second)
	for {
		if time.Now().After(deadline) {
			return "", fmt.Errorf("solver response timeout")
		}
		c, err := s.out.ReadByte()
		if err != nil {
			return b.String(), err
		}
		if !started {
			if c == ' ' || c == '\n' || c == '\t' || c == '\r' {
				continue
			}
			started = true
		}
		b.WriteByte(c)
		if inStr {
			if c == '"' {
				inStr = false
			}
			continue
		}
		switch c {
		case '"':
			inStr = true
		case '(':
			depth++
		case ')':
			depth--
			if depth == 0 {
				return b.String(), nil
			}
		case '\n', ' ':
			if depth == 0 {
				return strings.TrimSpace(b.String()), nil
			}
		}
	}
}

func (s *smtSession) checkSat() string {
	s.send("(check-sat)\n")
	r, err := s.readSexp()
	if err != nil {
		return "error"
	}
	return r
}

// values returns the model values of the terms (in order).
func (s *smtSession) values(terms []string) ([]string, error) {
	out := make([]string, 0, len(terms))
	for i := 0; i < len(terms); i += 400 {
		j := i + 400
		if j > len(terms) {
			j = len(terms)
		}
		s.send("(get-value (" + strings.Join(terms[i:j], " ") + "))\n")
		r, err := s.readSexp()
		if err != nil {
			return nil, err
		}
		if strings.HasPrefix(r, "(error") {
			return nil, fmt.Errorf("get-value: %s", r)
		}
		pairs := topLevelPairs(r)
		if len(pairs) != j-i {
			return nil, fmt.Errorf("get-value: %d values for %d terms", len(pairs), j-i)
		}
		out = append(out, pairs...)
	}
	return out, nil
}

// topLevelPairs parses "((t v) (t v) ...)" and returns the v's in order.
func topLevelPairs(s string) []string {
	var out []string
	depth, start := 0, -1
	for i := 0; i < len(s); i++ {
		switch s[i] {
		case '(':
			depth++
			if depth == 2 {
				start = i
			}
		case ')':
			if depth == 2 && start >= 0 {
				_, v := splitPair(s[start+1 : i])
				out = append(out, v)
				start = -1
			}
			depth--
		}
	}
	return out
}

func parseSMTInt(v string) (*big.Int, bool) {
	v = strings.TrimSpace(v)
	neg := false
	if strings.HasPrefix(v, "(-") {
		neg = true
		v = strings.TrimSpace(strings.TrimSuffix(strings.TrimPrefix(v, "(-"), ")"))
	}
	n, ok := new(big.Int).SetString(v, 10)
	if !ok {
		return nil, false
	}
	if neg {
		n.Neg(n)
	}
	return n, true
}

// ---------- walking a symbolic value ----------

type errTooBig struct {
	term  string
	bound int64
}

func (e errTooBig) Error() string { return "length too large for a replay: " + e.term }

type errUnbuildable struct{ why string }

func (e errUnbuildable) Error() string { return "input cannot be rebuilt: " + e.why }

type walker struct {
	s    *smtSession
	heap func(kind string, root types.Type, leaf Leaf) Term
	pins []Term // equalities term = concrete value collected while extracting
	seen map[string]bool
	// pin mode
	pinning bool
}

const replayMaxLen = 1 << 17

func foreignType(t types.Type) bool {
	n, ok := t.(*types.Named)
	if !ok {
		if a, isAlias := t.(*types.Alias); isAlias {
			return foreignType(types.Unalias(a))
		}
		return false
	}
	if n.Obj() == nil || n.Obj().Pkg() == nil {
		return false
	}
	return !strings.HasPrefix(n.Obj().Pkg().Path(), modulePrefix)
}

func (w *walker) getInt(t Term) (*big.Int, error) {
	vs, err := w.s.values([]string{t.S})
	if err != nil {
		return nil, err
	}
	n, ok := parseSMTInt(vs[0])
	if !ok {
		return nil, fmt.Errorf("unexpected model value %q for %s", vs[0], t.S)
	}
	w.pins = append(w.pins, Eq(t, BigLit(n)))
	return n, nil
}

func (w *walker) getInts(ts []Term) ([]*big.Int, error) {
	strs := make([]string, len(ts))
	for i, t := range ts {
		strs[i] = t.S
	}
	vs, err := w.s.values(strs)
	if err != nil {
		return nil, err
	}
	out := make([]*big.Int, len(ts))
	for i, v := range vs {
		n, ok := parseSMTInt(v)
		if !ok {
			return nil, fmt.Errorf("unexpected model value %q for %s", v, strs[i])
		}
		out[i] = n
		w.pins = append(w.pins, Eq(ts[i], BigLit(n)))
	}
	return out, nil
}

// extract reads the concrete value of v (of Go type t) from the model.
func (w *walker) extract(v Val, t types.Type, depth int) (*RNode, error) {
	if depth > 8 {
		return nil, errUnbuildable{"structure nested deeper than 8"}
	}
	if foreignType(t) {
		if _, isStruct := t.Underlying().(*types.Struct); isStruct {
			return &RNode{K: "zero"}, nil
		}
	}
	switch u := t.Underlying().(type) {
	case *types.Basic:
		switch {
		case u.Info()&types.IsBoolean != 0:
			vs, err := w.s.values([]string{v.C[0].S})
			if err != nil {
				return nil, err
			}
			b := strings.TrimSpace(vs[0])
			if b != "true" && b != "false" {
				return nil, fmt.Errorf("unexpected bool value %q", b)
			}
			if b == "true" {
				w.pins = append(w.pins, v.C[0])
			} else {
				w.pins = append(w.pins, Not(v.C[0]))
			}
			return &RNode{K: "bool", V: b}, nil
		case u.Info()&types.IsString != 0:
			ns, err := w.getInts([]Term{v.C[1], v.C[2]})
			if err != nil {
				return nil, err
			}
			if !ns[1].IsInt64() || ns[1].Int64() > replayMaxLen {
				return nil, errTooBig{v.C[2].S, replayMaxLen}
			}
			n := int(ns[1].Int64())
			ts := make([]Term, n)
			for i := 0; i < n; i++ {
				ts[i] = Select(v.C[0], Add(v.C[1], IntLit(int64(i))))
			}
			bs, err := w.getInts(ts)
			if err != nil {
				return nil, err
			}
			out := make([]byte, n)
			for i, b := range bs {
				out[i] = byte(b.Int64())
			}
			return &RNode{K: "str", B: out, L: n}, nil
		case u.Info()&types.IsInteger != 0:
			n, err := w.getInt(v.C[0])
			if err != nil {
				return nil, err
			}
			return &RNode{K: "int", V: n.String()}, nil
		default:
			return &RNode{K: "skip"}, nil // floats: not modelled, left zero
		}
	case *types.Pointer:
		p, err := w.getInt(v.C[0])
		if err != nil {
			return nil, err
		}
		if p.Sign() == 0 {
			return &RNode{K: "nil"}, nil
		}
		el := u.Elem()
		id := typeKey(el) + "@" + p.String()
		if w.seen[id] {
			return &RNode{K: "ptr", R: id}, nil
		}
		w.seen[id] = true
		if foreignType(el) {
			return &RNode{K: "ptr", R: id, E: []*RNode{{K: "zero"}}}, nil
		}
		ls := layout(el)
		pv := Val{T: el, C: make([]Term, len(ls))}
		for k, lf := range ls {
			pv.C[k] = Select(w.heap("H", el, lf), v.C[0])
		}
		sub, err := w.extract(pv, el, depth+1)
		if err != nil {
			return nil, err
		}
		return &RNode{K: "ptr", R: id, E: []*RNode{sub}}, nil
	case *types.Slice:
		ns, err := w.getInts([]Term{v.C[0], v.C[1], v.C[2], v.C[3]})
		if err != nil {
			return nil, err
		}
		if ns[0].Sign() == 0 {
			return &RNode{K: "nil"}, nil
		}
		if !ns[2].IsInt64() || ns[2].Int64() > replayMaxLen {
			return nil, errTooBig{v.C[2].S, replayMaxLen}
		}
		if !ns[3].IsInt64() || ns[3].Int64() > ns[2].Int64()+4096 {
			return nil, errTooBig{v.C[3].S, ns[2].Int64() + 64}
		}
		if !ns[1].IsInt64() || ns[1].Int64() > 4096 {
			return nil, errTooBig{v.C[1].S, 64}
		}
		n := int(ns[2].Int64())
		et := u.Elem()
		ls := layout(et)
		node := &RNode{K: "slice", R: typeKey(et) + "@" + ns[0].String(), O: int(ns[1].Int64()), L: n, C: int(ns[3].Int64())}
		if b, ok := et.Underlying().(*types.Basic); ok && b.Kind() == types.Uint8 {
			ts := make([]Term, n)
			arr := Select(w.heap("M", et, ls[0]), v.C[0])
			for i := 0; i < n; i++ {
				ts[i] = Select(arr, Add(v.C[1], IntLit(int64(i))))
			}
			bs, err := w.getInts(ts)
			if err != nil {
				return nil, err
			}
			node.B = make([]byte, n)
			for i, b := range bs {
				node.B[i] = byte(b.Int64())
			}
			return node, nil
		}
		if n > 4096 {
			return nil, errTooBig{v.C[2].S, 64}
		}
		for i := 0; i < n; i++ {
			ev := Val{T: et, C: make([]Term, len(ls))}
			for k, lf := range ls {
				ev.C[k] = Select(Select(w.heap("M", et, lf), v.C[0]), Add(v.C[1], IntLit(int64(i))))
			}
			sub, err := w.extract(ev, et, depth+1)
			if err != nil {
				return nil, err
			}
			node.E = append(node.E, sub)
		}
		return node, nil
	case *types.Struct:
		node := &RNode{K: "struct"}
		for i := 0; i < u.NumFields(); i++ {
			lo, hi := fieldRange(t, i)
			ft := u.Field(i).Type()
			sub, err := w.extract(Val{T: ft, C: v.C[lo:hi]}, ft, depth+1)
			if err != nil {
				return nil, err
			}
			node.E = append(node.E, sub)
		}
		return node, nil
	case *types.Array:
		et := u.Elem()
		els := layout(et)
		if u.Len() > 4096 {
			return nil, errUnbuildable{"large array"}
		}
		node := &RNode{K: "array"}
		for i := int64(0); i < u.Len(); i++ {
			ev := Val{T: et, C: make([]Term, len(els))}
			for k := range els {
				ev.C[k] = Select(v.C[k], IntLit(i))
			}
			sub, err := w.extract(ev, et, depth+1)
			if err != nil {
				return nil, err
			}
			node.E = append(node.E, sub)
		}
		return node, nil
	case *types.Interface:
		tag, err := w.getInt(v.C[0])
		if err != nil {
			return nil, err
		}
		if tag.Sign() == 0 {
			return &RNode{K: "nil"}, nil
		}
		return nil, errUnbuildable{"non-nil interface value of type " + shortType(t)}
	case *types.Map, *types.Chan, *types.Signature:
		p, err := w.getInt(v.C[0])
		if err != nil {
			return nil, err
		}
		if p.Sign() == 0 {
			return &RNode{K: "nil"}, nil
		}
		return nil, errUnbuildable{"non-nil " + shortType(t)}
	}
	return &RNode{K: "skip"}, nil
}

// pin returns the facts that say "the symbolic value v (type t, read in heap w.heap) is the concrete node".
// Only what both sides represent faithfully is pinned: integers, booleans, string and slice lengths and
// contents, nil-ness of pointers / interfaces / maps / channels / functions, pointees.
func (w *walker) pin(v Val, t types.Type, n *RNode, depth int, out *[]Term) {
	if n == nil || depth > 8 {
		return
	}
	if n.K == "zero" || n.K == "skip" || n.K == "other" {
		return
	}
	switch u := t.Underlying().(type) {
	case *types.Basic:
		switch {
		case u.Info()&types.IsBoolean != 0:
			if n.K != "bool" {
				return
			}
			if n.V == "true" {
				*out = append(*out, v.C[0])
			} else {
				*out = append(*out, Not(v.C[0]))
			}
		case u.Info()&types.IsString != 0:
			if n.K != "str" {
				return
			}
			*out = append(*out, Eq(v.C[2], IntLit(int64(len(n.B)))))
			for i, b := range n.B {
				*out = append(*out, Eq(Select(v.C[0], Add(v.C[1], IntLit(int64(i)))), IntLit(int64(b))))
			}
		case u.Info()&types.IsInteger != 0:
			if n.K != "int" {
				return
			}
			if x, ok := new(big.Int).SetString(n.V, 10); ok {
				*out = append(*out, Eq(v.C[0], BigLit(x)))
			}
		}
	case *types.Pointer:
		if n.K == "nil" {
			*out = append(*out, Eq(v.C[0], Zero))
			return
		}
		if n.K != "ptr" {
			return
		}
		*out = append(*out, Ne(v.C[0], Zero))
		if len(n.E) != 1 || w.seen["pin:"+v.C[0].S+typeKey(u.Elem())] {
			return
		}
		w.seen["pin:"+v.C[0].S+typeKey(u.Elem())] = true
		el := u.Elem()
		if foreignType(el) {
			return
		}
		ls := layout(el)
		pv := Val{T: el, C: make([]Term, len(ls))}
		for k, lf := range ls {
			pv.C[k] = Select(w.heap("H", el, lf), v.C[0])
		}
		w.pin(pv, el, n.E[0], depth+1, out)
	case *types.Slice:
		if n.K == "nil" {
			*out = append(*out, Eq(v.C[2], Zero))
			return
		}
		if n.K != "slice" {
			return
		}
		*out = append(*out, Eq(v.C[2], IntLit(int64(n.L))))
		et := u.Elem()
		ls := layout(et)
		var arrs []Term
		for _, lf := range ls {
			if v.Bk != nil {
				return // slices of in-struct arrays: lengths only
			}
			arrs = append(arrs, Select(w.heap("M", et, lf), v.C[0]))
		}
		if n.B != nil && len(ls) == 1 {
			for i, b := range n.B {
				*out = append(*out, Eq(Select(arrs[0], Add(v.C[1], IntLit(int64(i)))), IntLit(int64(b))))
			}
			return
		}
		for i, e := range n.E {
			ev := Val{T: et, C: make([]Term, len(ls))}
			for k := range ls {
				ev.C[k] = Select(arrs[k], Add(v.C[1], IntLit(int64(i))))
			}
			w.pin(ev, et, e, depth+1, out)
		}
	case *types.Struct:
		if n.K != "struct" || len(n.E) != u.NumFields() {
			return
		}
		for i := 0; i < u.NumFields(); i++ {
			lo, hi := fieldRange(t, i)
			ft := u.Field(i).Type()
			w.pin(Val{T: ft, C: v.C[lo:hi]}, ft, n.E[i], depth+1, out)
		}
	case *types.Array:
		if n.K != "array" {
			return
		}
		et := u.Elem()
		els := layout(et)
		for i, e := range n.E {
			ev := Val{T: et, C: make([]Term, len(els))}
			for k := range els {
				ev.C[k] = Select(v.C[k], IntLit(int64(i)))
			}
			w.pin(ev, et, e, depth+1, out)
		}
	case *types.Interface:
		if n.K == "nil" {
			*out = append(*out, Eq(v.C[0], Zero))
		} else if n.K == "iface" {
			*out = append(*out, Ne(v.C[0], Zero))
		}
	case *types.Map, *types.Chan, *types.Signature:
		if n.K == "nil" {
			*out = append(*out, Eq(v.C[0], Zero))
		} else {
			*out = append(*out, Ne(v.C[0], Zero))
		}
	}
}

// ---------- eligibility ----------

// touchesOutside reports whether fn can (through static calls) reach the file system, the network,
// process control or goroutine/timer machinery — such functions are not executed by a replay.
func touchesOutside(fn *ssa.Function) string {
	bad := map[string]bool{"os": true, "os/exec": true, "net": true, "syscall": true, "io/ioutil": true, "net/http": true, "os/signal": true, "google.golang.org/grpc": true}
	seen := map[*ssa.Function]bool{}
	var why string
	var visit func(f *ssa.Function, d int)
	visit = func(f *ssa.Function, d int) {
		if f == nil || seen[f] || why != "" || d > 12 {
			return
		}
		seen[f] = true
		if f.Pkg != nil && bad[f.Pkg.Pkg.Path()] {
			why = "reaches " + f.String()
			return
		}
		if f.Pkg == nil || !strings.HasPrefix(f.Pkg.Pkg.Path(), modulePrefix) {
			if f.Object() != nil && f.Object().Pkg() != nil && bad[f.Object().Pkg().Path()] {
				why = "reaches " + f.String()
			}
			return // do not descend into library code
		}
		for _, b := range f.Blocks {
			for _, in := range b.Instrs {
				switch x := in.(type) {
				case *ssa.Go:
					why = "starts a goroutine in " + f.String()
					return
				case ssa.CallInstruction:
					c := x.Common()
					if sc := c.StaticCallee(); sc != nil {
						visit(sc, d+1)
					} else if c.IsInvoke() {
						if c.Method.Pkg() != nil && bad[c.Method.Pkg().Path()] {
							why = "invokes " + c.Method.FullName()
							return
						}
					}
				case *ssa.MakeClosure:
					if cf, ok := x.Fn.(*ssa.Function); ok {
						visit(cf, d+1)
					}
				}
			}
		}
	}
	visit(fn, 0)
	return why
}

func replayEligible(fn *ssa.Function) string {
	if fn == nil {
		return "no function object"
	}
	if fn.Parent() != nil {
		return "function literal"
	}
	if fn.Pkg == nil || !strings.HasPrefix(fn.Pkg.Pkg.Path(), modulePrefix) {
		return "function outside the module"
	}
	if (fn.TypeParams() != nil && fn.TypeParams().Len() > 0) || len(fn.TypeArgs()) > 0 {
		return "generic function"
	}
	if w := touchesOutside(fn); w != "" {
		return w
	}
	return ""
}

func pkgDirOf(fn *ssa.Function) string {
	p := fn.Pkg.Pkg.Path()
	sdkMod := modulePrefix + "/sdk/go/hydraidego/v3"
	if p == sdkMod || strings.HasPrefix(p, sdkMod+"/") {
		return filepath.Join(repoRoot, "sdk/go/hydraidego", strings.TrimPrefix(p, sdkMod))
	}
	return filepath.Join(repoRoot, strings.TrimPrefix(strings.TrimPrefix(p, modulePrefix), "/"))
}

// callExpr returns the Go expression denoting the function (method expression for methods).
func callExpr(fn *ssa.Function) string {
	if recv := fn.Signature.Recv(); recv != nil {
		rt := recv.Type()
		if p, ok := rt.(*types.Pointer); ok {
			return "(*" + p.Elem().(*types.Named).Obj().Name() + ")." + fn.Name()
		}
		return rt.(*types.Named).Obj().Name() + "." + fn.Name()
	}
	return fn.Name()
}

// ---------- the replay ----------

var panicObligKinds = map[string]bool{"nil": true, "idx": true, "slice": true, "div": true, "panic": true, "close": true,
	"makeslice": true, "nilmap": true, "typeassert": true, "send": true, "nopanic": true}

func (cr *checkRun) replayOnRealCode(a *Agg, inst *Oblig, base string) (string, bool) {
	report := &strings.Builder{}
	fmt.Fprintf(report, "obligation: %s\nstatus: %s\nproperty: %s\nwhere: %s\npath: %s\n", a.Name, a.Status, cr.id, inst.Pos, inst.Trail)
	path := base + ".replay.txt"
	var sessLog *bytes.Buffer
	finish := func(ok bool, msg string) (string, bool) {
		fmt.Fprintf(report, "replay verdict: %s\n", msg)
		if !ok {
			// the caller writes the plain artefact; keep what was learnt beside it
			os.WriteFile(base+".replay-attempt.txt", []byte(report.String()), 0o644)
			if sessLog != nil && os.Getenv("GOVC_DEBUG") != "" {
				os.WriteFile(base+".replay-session.smt2", sessLog.Bytes(), 0o644)
			}
			return "", false
		}
		os.WriteFile(path, []byte(report.String()), 0o644)
		return path, true
	}
	isPanic := panicObligKinds[inst.Kind]
	if !isPanic && inst.Kind != "post" {
		return finish(false, "obligations of kind "+inst.Kind+" are not replayed (only postconditions and panic freedom)")
	}
	fn := inst.FnObj
	if why := replayEligible(fn); why != "" {
		return finish(false, "not replayed: "+why)
	}
	if len(inst.Params) != len(fn.Params) {
		return finish(false, "not replayed: parameter values of the path were not recorded")
	}
	// 1. model
	q := inst.buildQuery(true)
	q = strings.Replace(q, "(check-sat)\n", "", 1)
	declared := map[string]bool{}
	for _, ln := range strings.Split(q, "\n") {
		if strings.HasPrefix(ln, "(declare-fun ") {
			declared[strings.Fields(ln)[1]] = true
		}
	}
	sess, err := newSession(30)
	if err != nil {
		return finish(false, "cannot start z3-new: "+err.Error())
	}
	defer sess.close()
	sessLog = &sess.log
	sess.send(q)
	entryHeap := func(kind string, root types.Type, leaf Leaf) Term {
		key := heapKey(kind, root, leaf)
		if inst.EntryHeap != nil {
			if t, ok := inst.EntryHeap[key]; ok {
				return t
			}
		}
		return Sym(sanitize(kind+"_"+shortType(root)+"_"+leaf.Name)+"@0", heapSort(kind, leaf))
	}
	declare := func(terms []Term) {
		var b strings.Builder
		for _, t := range terms {
			b.WriteString(t.S)
			b.WriteByte(' ')
		}
		for _, d := range declsFor(b.String()) {
			name := strings.Fields(d)[1]
			if !declared[name] {
				declared[name] = true
				sess.send(d + "\n")
			}
		}
	}
	// declare every entry-heap symbol the walk may need (cheap: only those of reachable types are used)
	var pre []Term
	var collect func(t types.Type, d int)
	seenT := map[string]bool{}
	collect = func(t types.Type, d int) {
		if d > 8 || seenT[typeKey(t)] {
			return
		}
		seenT[typeKey(t)] = true
		switch u := t.Underlying().(type) {
		case *types.Pointer:
			if !foreignType(u.Elem()) {
				for _, lf := range layout(u.Elem()) {
					pre = append(pre, entryHeap("H", u.Elem(), lf))
				}
				collect(u.Elem(), d+1)
			}
		case *types.Slice:
			for _, lf := range layout(u.Elem()) {
				pre = append(pre, entryHeap("M", u.Elem(), lf))
			}
			collect(u.Elem(), d+1)
		case *types.Struct:
			if !foreignType(t) {
				for i := 0; i < u.NumFields(); i++ {
					collect(u.Field(i).Type(), d+1)
				}
			}
		case *types.Array:
			collect(u.Elem(), d+1)
		}
	}
	for _, p := range fn.Params {
		collect(p.Type(), 0)
	}
	declare(pre)
	for _, p := range inst.Params {
		declare(p.C)
	}
	// small inputs first: bound every parameter-level length, relax if that is unsatisfiable
	var lenTerms []Term
	for i, p := range fn.Params {
		for k, lf := range layout(p.Type()) {
			switch lf.Role {
			case "sl.len", "sl.cap", "sl.off", "str.len", "str.off":
				lenTerms = append(lenTerms, inst.Params[i].C[k])
			}
		}
	}
	sat := ""
	for _, bound := range []int64{8, 64, 4096, replayMaxLen, -1} {
		sess.send("(push)\n")
		if bound >= 0 {
			for _, t := range lenTerms {
				sess.send("(assert (<= " + t.S + " " + fmt.Sprint(bound) + "))\n")
			}
		}
		sat = sess.checkSat()
		if sat == "sat" {
			break
		}
		sess.send("(pop)\n")
	}
	if sat != "sat" {
		return finish(false, "the solver gave no model in the interactive session ("+sat+")")
	}
	var inputs []*RNode
	var w *walker
	for attempt := 0; attempt < 6; attempt++ {
		w = &walker{s: sess, heap: entryHeap, seen: map[string]bool{}}
		inputs = nil
		var xerr error
		for i, p := range fn.Params {
			n, err := w.extract(inst.Params[i], p.Type(), 0)
			if err != nil {
				xerr = err
				break
			}
			inputs = append(inputs, n)
		}
		if xerr == nil {
			break
		}
		if tb, ok := xerr.(errTooBig); ok && attempt < 5 {
			sess.send(fmt.Sprintf("(assert (<= %s %d))\n", tb.term, tb.bound))
			if r := sess.checkSat(); r != "sat" {
				return finish(false, "no model with inputs small enough to rebuild ("+tb.term+")")
			}
			continue
		}
		return finish(false, xerr.Error())
	}
	if len(inputs) != len(fn.Params) {
		return finish(false, "inputs could not be extracted")
	}
	inJSON, _ := json.Marshal(inputs)
	fmt.Fprintf(report, "counterexample inputs (from the solver model):\n")
	for i, p := range fn.Params {
		fmt.Fprintf(report, "  %s = %s\n", p.Name(), renderNode(inputs[i], 0))
	}
	// 2. run the real code
	testSrc := genReplayTest(fn, string(inJSON))
	testPath := base + "_replay_test.go"
	os.WriteFile(testPath, []byte(testSrc), 0o644)
	fmt.Fprintf(report, "generated test: %s (re-run: /verif/check %s --replay %s)\n", testPath, cr.id, testPath)
	outRaw, runLog, err := runReplayTest(pkgDirOf(fn), testPath)
	if err != nil {
		fmt.Fprintf(report, "go test output:\n%s\n", tail(runLog, 3000))
		return finish(false, "the generated test did not run to completion: "+err.Error())
	}
	var ro replayOut
	if err := json.Unmarshal(outRaw, &ro); err != nil {
		return finish(false, "unreadable replay output: "+err.Error())
	}
	if ro.Panic != "" {
		fmt.Fprintf(report, "real code: PANIC %s\n", ro.Panic)
	} else {
		fmt.Fprintf(report, "real code returned:\n")
		for i, r := range ro.Results {
			fmt.Fprintf(report, "  result %d = %s\n", i, renderNode(r, 0))
		}
	}
	// 3. verdict
	if isPanic {
		if ro.Panic != "" {
			return finish(true, "REPRODUCED: the real function panics on the solver's inputs (contract: nopanic)")
		}
		return finish(false, "not reproduced: the real function did not panic on these inputs")
	}
	if ro.Panic != "" {
		return finish(false, "not reproduced as a postcondition failure: the real function panicked instead")
	}
	if len(ro.Results) != len(inst.Rets) {
		return finish(false, "result arity mismatch between the path and the real call")
	}
	exitHeap := func(kind string, root types.Type, leaf Leaf) Term {
		key := heapKey(kind, root, leaf)
		if t, ok := inst.ExitHeap[key]; ok {
			return t
		}
		return entryHeap(kind, root, leaf)
	}
	pw := &walker{heap: exitHeap, seen: map[string]bool{}}
	var outPins []Term
	res := fn.Signature.Results()
	for i := 0; i < res.Len(); i++ {
		pw.pin(inst.Rets[i], res.At(i).Type(), ro.Results[i], 0, &outPins)
	}
	for i, p := range fn.Params {
		if i < len(ro.Params) {
			switch p.Type().Underlying().(type) {
			case *types.Pointer, *types.Slice:
				pw.pin(inst.Params[i], p.Type(), ro.Params[i], 0, &outPins)
			}
		}
	}
	pinsAll := append(append([]Term{}, w.pins...), outPins...)
	declare(pinsAll)
	sess.send("(push)\n")
	for _, t := range pinsAll {
		sess.send("(assert " + t.S + ")\n")
	}
	q2 := sess.checkSat()
	sess.send("(pop)\n")
	fmt.Fprintf(report, "Q2 (path ∧ inputs ∧ real outputs ∧ ¬clause): %s\n", q2)
	if q2 != "sat" {
		return finish(false, "not reproduced: the real outputs are not those of a run of this path that violates the clause")
	}
	o3 := &Oblig{PC: append(append([]Term{}, inst.PC...), pinsAll...), Goal: Not(inst.Goal)}
	q3text := o3.buildQuery(false)
	q3 := oneShot(q3text, 30)
	fmt.Fprintf(report, "Q3 (path ∧ inputs ∧ real outputs ∧ clause): %s\n", q3)
	if q3 != "unsat" {
		return finish(false, "not reproduced: the clause is not refuted by the real outputs alone ("+q3+")")
	}
	return finish(true, "REPRODUCED: the real function, called with the solver's inputs, returns outputs that falsify the clause")
}

func oneShot(query string, timeoutS int) string {
	f, err := os.CreateTemp(scratchDir(), "q3-*.smt2")
	if err != nil {
		return "error"
	}
	f.WriteString(query)
	f.Close()
	defer os.Remove(f.Name())
	res, _ := runSolver(context.Background(), solverRun{"z3-new", []string{"z3-new", "-smt2", fmt.Sprintf("-T:%d", timeoutS), f.Name()}}, timeoutS)
	if res == "unknown" {
		res, _ = runSolver(context.Background(), solverRun{"cvc5", []string{"cvc5", fmt.Sprintf("--tlimit=%d", timeoutS*1000), f.Name()}}, timeoutS)
	}
	return res
}

func tail(s string, n int) string {
	if len(s) > n {
		return "…" + s[len(s)-n:]
	}
	return s
}

func renderNode(n *RNode, d int) string {
	if n == nil {
		return "?"
	}
	switch n.K {
	case "int", "bool":
		return n.V
	case "str":
		return fmt.Sprintf("%q", abbreviate(n.B))
	case "nil":
		return "nil"
	case "zero":
		return "<zero value>"
	case "skip", "other":
		return "<not modelled>"
	case "iface":
		return "<" + n.T + ">"
	case "ptr":
		if len(n.E) == 0 {
			return "&<" + n.R + ">"
		}
		return "&" + renderNode(n.E[0], d+1)
	case "slice":
		if n.B != nil || n.L == 0 {
			return fmt.Sprintf("[]byte(len %d cap %d)%q", n.L, n.C, abbreviate(n.B))
		}
		fallthrough
	case "struct", "array":
		var parts []string
		for i, e := range n.E {
			if i >= 12 {
				parts = append(parts, "…")
				break
			}
			parts = append(parts, renderNode(e, d+1))
		}
		return "{" + strings.Join(parts, ", ") + "}"
	}
	return n.K
}

func abbreviate(b []byte) string {
	if len(b) > 64 {
		return string(b[:48]) + fmt.Sprintf("…(%d bytes)", len(b))
	}
	return string(b)
}

// runReplayTest runs the generated test in the package directory through an overlay.
func runReplayTest(pkgDir, testPath string) ([]byte, string, error) {
	scratch, err := os.MkdirTemp(scratchDir(), "replay")
	if err != nil {
		return nil, "", err
	}
	defer os.RemoveAll(scratch)
	outFile := filepath.Join(scratch, "out.json")
	ov := map[string]map[string]string{"Replace": {filepath.Join(pkgDir, "zz_govc_replay_test.go"): testPath}}
	ovData, _ := json.Marshal(ov)
	ovPath := filepath.Join(scratch, "ov.json")
	os.WriteFile(ovPath, ovData, 0o644)
	ctx, cancel := context.WithTimeout(context.Background(), 8*time.Minute)
	defer cancel()
	cmd := exec.CommandContext(ctx, "sh", "-c", "ulimit -v 33554432; exec go test -overlay "+ovPath+" -vet=off -count=1 -timeout 60s -run '^TestGovcReplay$' .")
	cmd.Dir = pkgDir
	env := []string{}
	for _, e := range os.Environ() {
		if strings.HasPrefix(e, "GOFLAGS=") {
			continue
		}
		env = append(env, e)
	}
	cmd.Env = append(env, "GOVC_REPLAY_OUT="+outFile, "GOFLAGS=", "GOPROXY=off", "GOSUMDB=off")
	lg, _ := cmd.CombinedOutput()
	data, rerr := os.ReadFile(outFile)
	if rerr != nil {
		return nil, string(lg), fmt.Errorf("no output written (go test: %s)", firstLine(string(lg)))
	}
	return data, string(lg), nil
}

func firstLine(s string) string {
	s = strings.TrimSpace(s)
	if i := strings.Index(s, "\n"); i >= 0 {
		return s[:i]
	}
	return s
}

func genReplayTest(fn *ssa.Function, inJSON string) string {
	var b strings.Builder
	fmt.Fprintf(&b, "// Generated by govc: replay of a solver counterexample on the real function %s.\n", fn.String())
	fmt.Fprintf(&b, "// govc-pkgdir: %s\n", pkgDirOf(fn))
	fmt.Fprintf(&b, "package %s\n\n", fn.Pkg.Pkg.Name())
	b.WriteString(`import (
	"encoding/json"
	"fmt"
	"math/big"
	"os"
	"reflect"
	"strings"
	"testing"
	"unsafe"
)

type govcNode struct {
	K string      ` + "`json:\"k\"`" + `
	V string      ` + "`json:\"v,omitempty\"`" + `
	B []byte      ` + "`json:\"b,omitempty\"`" + `
	R string      ` + "`json:\"r,omitempty\"`" + `
	O int         ` + "`json:\"o,omitempty\"`" + `
	L int         ` + "`json:\"l,omitempty\"`" + `
	C int         ` + "`json:\"c,omitempty\"`" + `
	E []*govcNode ` + "`json:\"e,omitempty\"`" + `
	T string      ` + "`json:\"t,omitempty\"`" + `
}

const govcModule = "` + modulePrefix + `"

var (
	govcObjs  = map[string]reflect.Value{}
	govcBacks = map[string]reflect.Value{}
	govcNeed  = map[string]int{}
)

func govcSettable(v reflect.Value) reflect.Value {
	if v.CanSet() {
		return v
	}
	return reflect.NewAt(v.Type(), unsafe.Pointer(v.UnsafeAddr())).Elem()
}

func govcForeign(t reflect.Type) bool {
	return t.PkgPath() != "" && !strings.HasPrefix(t.PkgPath(), govcModule)
}

func govcScan(n *govcNode) {
	if n == nil {
		return
	}
	if n.K == "slice" && n.O+n.C > govcNeed[n.R] {
		govcNeed[n.R] = n.O + n.C
	}
	if n.K == "slice" && n.O+n.L > govcNeed[n.R] {
		govcNeed[n.R] = n.O + n.L
	}
	for _, e := range n.E {
		govcScan(e)
	}
}

func govcFill(v reflect.Value, n *govcNode) {
	if n == nil {
		return
	}
	v = govcSettable(v)
	switch n.K {
	case "zero", "skip", "nil", "other":
		return
	case "bool":
		v.SetBool(n.V == "true")
	case "int":
		x, _ := new(big.Int).SetString(n.V, 10)
		switch v.Kind() {
		case reflect.Int, reflect.Int8, reflect.Int16, reflect.Int32, reflect.Int64:
			v.SetInt(x.Int64())
		default:
			v.SetUint(x.Uint64())
		}
	case "str":
		v.SetString(string(n.B))
	case "ptr":
		if o, ok := govcObjs[n.R]; ok {
			v.Set(o)
			return
		}
		o := reflect.New(v.Type().Elem())
		govcObjs[n.R] = o
		v.Set(o)
		if len(n.E) == 1 {
			govcFill(o.Elem(), n.E[0])
		}
	case "slice":
		bk, ok := govcBacks[n.R]
		if !ok {
			bk = reflect.MakeSlice(v.Type(), govcNeed[n.R], govcNeed[n.R])
			govcBacks[n.R] = bk
		}
		hi := n.O + n.C
		if hi < n.O+n.L {
			hi = n.O + n.L
		}
		v.Set(bk.Slice3(n.O, n.O+n.L, hi))
		if n.B != nil {
			for i, c := range n.B {
				v.Index(i).SetUint(uint64(c))
			}
		}
		for i, e := range n.E {
			govcFill(v.Index(i), e)
		}
	case "struct":
		for i, e := range n.E {
			if i < v.NumField() {
				govcFill(v.Field(i), e)
			}
		}
	case "array":
		for i, e := range n.E {
			if i < v.Len() {
				govcFill(v.Index(i), e)
			}
		}
	}
}

func govcDump(v reflect.Value, depth int, seen map[uintptr]bool) *govcNode {
	if depth > 8 {
		return &govcNode{K: "other"}
	}
	if govcForeign(v.Type()) && v.Kind() == reflect.Struct {
		return &govcNode{K: "zero"}
	}
	switch v.Kind() {
	case reflect.Bool:
		return &govcNode{K: "bool", V: fmt.Sprint(v.Bool())}
	case reflect.Int, reflect.Int8, reflect.Int16, reflect.Int32, reflect.Int64:
		return &govcNode{K: "int", V: fmt.Sprint(v.Int())}
	case reflect.Uint, reflect.Uint8, reflect.Uint16, reflect.Uint32, reflect.Uint64, reflect.Uintptr:
		return &govcNode{K: "int", V: fmt.Sprint(v.Uint())}
	case reflect.String:
		return &govcNode{K: "str", B: []byte(v.String()), L: v.Len()}
	case reflect.Ptr:
		if v.IsNil() {
			return &govcNode{K: "nil"}
		}
		id := fmt.Sprintf("%s@%x", v.Type().Elem(), v.Pointer())
		if seen[v.Pointer()] || govcForeign(v.Type().Elem()) {
			return &govcNode{K: "ptr", R: id}
		}
		seen[v.Pointer()] = true
		return &govcNode{K: "ptr", R: id, E: []*govcNode{govcDump(v.Elem(), depth+1, seen)}}
	case reflect.Slice:
		if v.IsNil() {
			return &govcNode{K: "nil"}
		}
		n := &govcNode{K: "slice", L: v.Len(), C: v.Cap()}
		if v.Type().Elem().Kind() == reflect.Uint8 {
			n.B = make([]byte, v.Len())
			for i := 0; i < v.Len(); i++ {
				n.B[i] = byte(v.Index(i).Uint())
			}
			return n
		}
		if v.Len() > 4096 {
			return &govcNode{K: "other"}
		}
		for i := 0; i < v.Len(); i++ {
			n.E = append(n.E, govcDump(v.Index(i), depth+1, seen))
		}
		return n
	case reflect.Struct:
		n := &govcNode{K: "struct"}
		for i := 0; i < v.NumField(); i++ {
			n.E = append(n.E, govcDump(v.Field(i), depth+1, seen))
		}
		return n
	case reflect.Array:
		n := &govcNode{K: "array"}
		for i := 0; i < v.Len(); i++ {
			n.E = append(n.E, govcDump(v.Index(i), depth+1, seen))
		}
		return n
	case reflect.Interface:
		if v.IsNil() {
			return &govcNode{K: "nil"}
		}
		n := &govcNode{K: "iface", T: v.Elem().Type().String()}
		if v.CanInterface() {
			if e, ok := v.Interface().(error); ok {
				n.T += ": " + e.Error()
			}
		}
		return n
	case reflect.Map, reflect.Chan, reflect.Func:
		if v.IsNil() {
			return &govcNode{K: "nil"}
		}
		return &govcNode{K: "other"}
	}
	return &govcNode{K: "skip"}
}

func TestGovcReplay(t *testing.T) {
	var in []*govcNode
	if err := json.Unmarshal([]byte(govcInputs), &in); err != nil {
		t.Fatal(err)
	}
	dir := t.TempDir()
	os.Chdir(dir)
	for _, n := range in {
		govcScan(n)
	}
`)
	fmt.Fprintf(&b, "\tfv := reflect.ValueOf(%s)\n", callExpr(fn))
	b.WriteString(`	ft := fv.Type()
	args := make([]reflect.Value, ft.NumIn())
	for i := range args {
		args[i] = reflect.New(ft.In(i)).Elem()
		if i < len(in) {
			govcFill(args[i], in[i])
		}
	}
	out := struct {
		Panic   string      ` + "`json:\"panic\"`" + `
		Results []*govcNode ` + "`json:\"results\"`" + `
		Params  []*govcNode ` + "`json:\"params\"`" + `
	}{}
	func() {
		defer func() {
			if r := recover(); r != nil {
				out.Panic = fmt.Sprint(r)
				if out.Panic == "" {
					out.Panic = "panic"
				}
			}
		}()
		var res []reflect.Value
		if ft.IsVariadic() {
			res = fv.CallSlice(args)
		} else {
			res = fv.Call(args)
		}
		for _, r := range res {
			out.Results = append(out.Results, govcDump(r, 0, map[uintptr]bool{}))
		}
	}()
	for _, a := range args {
		out.Params = append(out.Params, govcDump(a, 0, map[uintptr]bool{}))
	}
	data, _ := json.Marshal(out)
	if p := os.Getenv("GOVC_REPLAY_OUT"); p != "" {
		os.WriteFile(p, data, 0o644)
	}
	if out.Panic != "" {
		t.Logf("real code PANIC: %s", out.Panic)
	}
	for i, r := range out.Results {
		rj, _ := json.Marshal(r)
		s := string(rj)
		if len(s) > 400 {
			s = s[:400] + "…"
		}
		t.Logf("result %d: %s", i, s)
	}
}
`)
	fmt.Fprintf(&b, "\nconst govcInputs = %q\n", inJSON)
	return b.String()
}

var _ = sort.Strings

package main

// Evaluation of contract expressions over a symbolic state.

import (
	"strconv"
	"fmt"
	"go/constant"
	"go/types"
	"sort"
	"strings"

	"golang.org/x/tools/go/ssa"
)

type SEnv struct {
	r     *Runner
	st    *State // state in which the expression is evaluated
	old   *State // pre-state view for old(); nil = same as st
	vars  map[string]Val
	frame *Frame // for locals in loop invariants (may be nil)
	pkg   *ssa.Package
	bound map[string]Term
	facts []Term // typing side-facts collected during evaluation
	depth int
	callSite bool // evaluating a callee's postcondition at a call site: its call-history terms are unknown values
}

func (r *Runner) newEnv(st *State, pkg *ssa.Package) *SEnv {
	return &SEnv{r: r, st: st, vars: map[string]Val{}, pkg: pkg, bound: map[string]Term{}}
}

type specErr struct{ msg string }

func (e specErr) Error() string { return "spec: " + e.msg }

func sfail(f string, a ...interface{}) { panic(specErr{fmt.Sprintf(f, a...)}) }

// EvalBool evaluates a clause to a Bool term; typing facts go to sink's path condition.
func (e *SEnv) EvalBool(x SExpr, sink *State) Term {
	saved := []struct {
		s    *State
		side *[]Term
		nd   bool
	}{{e.st, e.st.side, e.st.noDef}}
	if e.old != nil {
		saved = append(saved, struct {
			s    *State
			side *[]Term
			nd   bool
		}{e.old, e.old.side, e.old.noDef})
	}
	e.facts = nil
	for _, s := range saved {
		s.s.side = &e.facts
		s.s.noDef = true
	}
	defer func() {
		for _, s := range saved {
			s.s.side = s.side
			s.s.noDef = s.nd
		}
	}()
	t := e.boolOf(e.eval(x))
	fs := e.facts
	for _, s := range saved {
		s.s.side = s.side
		s.s.noDef = s.nd
	}
	if sink != nil {
		sink.assume(fs...)
	}
	return t
}

// EvalVal evaluates to a value (used for decreases and modifies operands).
func (e *SEnv) EvalVal(x SExpr, sink *State) Val {
	oldSide, oldND := e.st.side, e.st.noDef
	e.facts = nil
	e.st.side = &e.facts
	e.st.noDef = true
	var os *[]Term
	var ond bool
	if e.old != nil {
		os, ond = e.old.side, e.old.noDef
		e.old.side = &e.facts
		e.old.noDef = true
	}
	v := e.eval(x)
	e.st.side, e.st.noDef = oldSide, oldND
	if e.old != nil {
		e.old.side, e.old.noDef = os, ond
	}
	if sink != nil {
		sink.assume(e.facts...)
	}
	return v
}

func (e *SEnv) boolOf(v Val) Term {
	if len(v.C) != 1 || v.C[0].Sort != SBool {
		sfail("boolean expected, got %v", v.T)
	}
	return v.C[0]
}

func (e *SEnv) intOf(v Val) Term {
	if len(v.C) != 1 || v.C[0].Sort != SInt {
		sfail("integer expected, got %v (%d comps)", v.T, len(v.C))
	}
	return v.C[0]
}

func isSpecNil(v Val) bool { return v.T == nil && len(v.C) == 1 && v.C[0].S == "0" && v.Clo != nil && v.Clo.Fn == nil }

var specNil = Val{T: nil, C: []Term{Zero}, Clo: &Closure{}}

func (e *SEnv) lookupIdent(name string) (Val, bool) {
	if t, ok := e.bound[name]; ok {
		return specInt(t), true
	}
	// loop invariants: locals shadow formals
	if e.frame != nil {
		// several locals may share a name (block scopes): take the innermost one whose
		// declaration dominates the current program point
		var best *ssa.Alloc
		bestDepth := -1
		for _, l := range frameAllocs(e.frame.fn) {
			if l.Comment != name || l.Block() == nil {
				continue
			}
			if e.frame.blk != nil && !l.Block().Dominates(e.frame.blk) {
				continue
			}
			if l.Heap {
				if _, ok := e.frame.regs[l]; !ok {
					continue
				}
			} else if _, ok := e.st.cells[cellKey{e.frame.id, l}]; !ok {
				continue
			}
			d := 0
			for b := l.Block(); b != nil; b = b.Idom() {
				d++
			}
			if d > bestDepth {
				best, bestDepth = l, d
			}
		}
		if best != nil {
			if best.Heap {
				return e.st.load(e.r.placeOf(e.frame.regs[best])), true
			}
			return e.st.cells[cellKey{e.frame.id, best}], true
		}
	}
	if v, ok := e.vars[name]; ok {
		return v, true
	}
	if e.frame != nil && strings.HasSuffix(name, "_ptr") {
		// NAME_ptr: the captured variable NAME itself (environments built at call sites do not carry it)
		if v, ok := e.frame.fvEntry[name]; ok {
			return v, true
		}
	}
	switch name {
	case "true":
		return specBool(True), true
	case "false":
		return specBool(False), true
	case "nil":
		return specNil, true
	}
	if g, ok := e.st.ghost["spec:"+name]; ok {
		return Val{C: []Term{g}}, true
	}
	if e.pkg != nil {
		if v, ok := e.lookupPkgMember(e.pkg, name); ok {
			return v, true
		}
	}
	return Val{}, false
}

func (e *SEnv) lookupPkgMember(p *ssa.Package, name string) (Val, bool) {
	m := p.Members[name]
	switch x := m.(type) {
	case *ssa.NamedConst:
		return e.constToVal(x.Value.Value, x.Type()), true
	case *ssa.Global:
		if cv, ok := e.r.immutableGlobal(e.st, x); ok {
			return cv, true
		}
		return e.st.load(e.r.placeOf(e.r.globalPtr(x))), true
	}
	// types-level lookup for constants in packages without SSA members
	if obj := p.Pkg.Scope().Lookup(name); obj != nil {
		if c, ok := obj.(*types.Const); ok {
			return e.constToVal(c.Val(), c.Type()), true
		}
	}
	return Val{}, false
}

func (e *SEnv) constToVal(cv constant.Value, t types.Type) Val {
	switch cv.Kind() {
	case constant.Int:
		n, _ := new(bigInt).SetString(cv.ExactString(), 10)
		return specInt(BigLit(n))
	case constant.Bool:
		return specBool(BoolLit(constant.BoolVal(cv)))
	case constant.String:
		return e.r.stringLit(e.st, types.Typ[types.String], constant.StringVal(cv))
	}
	sfail("unsupported constant kind %v", cv.Kind())
	return Val{}
}

func (e *SEnv) eval(x SExpr) Val {
	switch n := x.(type) {
	case *SIntL:
		return specInt(BigLit(n.V))
	case *SStrL:
		return e.r.stringLit(e.st, types.Typ[types.String], n.V)
	case *SIdent:
		if v, ok := e.lookupIdent(n.Name); ok {
			return v
		}
		sfail("unresolved identifier %q", n.Name)
	case *SSel:
		// package-qualified name?
		if id, ok := n.X.(*SIdent); ok {
			if _, isVar := e.lookupIdent(id.Name); !isVar && e.pkg != nil {
				for _, imp := range e.pkg.Pkg.Imports() {
					if imp.Name() == id.Name {
						if sp := e.r.prog.Package(imp); sp != nil {
							if v, ok := e.lookupPkgMember(sp, n.Name); ok {
								return v
							}
						}
						sfail("unresolved %s.%s", id.Name, n.Name)
					}
				}
			}
		}
		return e.selectField(e.eval(n.X), n.Name)
	case *SIndex:
		b := e.eval(n.X)
		return e.indexVal(b, e.eval(n.I))
	case *SSlice:
		b := e.eval(n.X)
		var lo, hi Term
		if n.Lo != nil {
			lo = e.intOf(e.eval(n.Lo))
		} else {
			lo = Zero
		}
		switch {
		case b.T != nil && isString(b.T):
			if n.Hi != nil {
				hi = e.intOf(e.eval(n.Hi))
			} else {
				hi = b.C[2]
			}
			return Val{T: b.T, C: []Term{b.C[0], Add(b.C[1], lo), Sub(hi, lo)}}
		case b.T != nil && isSlice(b.T):
			if n.Hi != nil {
				hi = e.intOf(e.eval(n.Hi))
			} else {
				hi = b.C[2]
			}
			return Val{T: b.T, C: []Term{b.C[0], Add(b.C[1], lo), Sub(hi, lo), Sub(b.C[3], lo)}, Bk: b.Bk}
		}
		sfail("slice of %v", b.T)
	case *SUn:
		v := e.eval(n.X)
		if n.Op == "!" {
			return specBool(Not(e.boolOf(v)))
		}
		return specInt(Neg(e.intOf(v)))
	case *SBin:
		return e.evalBin(n)
	case *SQuant:
		return e.evalQuant(n)
	case *SCall:
		return e.evalCall(n)
	}
	sfail("unsupported expression %T", x)
	return Val{}
}

func (e *SEnv) selectField(b Val, name string) Val {
	if b.T == nil {
		sfail("field %s of spec value", name)
	}
	t := b.T
	if pt, ok := t.Underlying().(*types.Pointer); ok {
		st, ok2 := pt.Elem().Underlying().(*types.Struct)
		if !ok2 {
			sfail("field %s of %v", name, t)
		}
		for i := 0; i < st.NumFields(); i++ {
			if st.Field(i).Name() == name {
				return e.st.load(e.r.placeOf(b).withField(i))
			}
		}
		// promoted through embedded fields
		for i := 0; i < st.NumFields(); i++ {
			if st.Field(i).Embedded() {
				inner := e.st.load(e.r.placeOf(b).withField(i))
				if v, ok := e.trySelect(inner, name); ok {
					return v
				}
			}
		}
		sfail("no field %s in %v", name, pt.Elem())
	}
	if v, ok := e.trySelect(b, name); ok {
		return v
	}
	sfail("no field %s in %v", name, t)
	return Val{}
}

func (e *SEnv) trySelect(b Val, name string) (Val, bool) {
	st, ok := b.T.Underlying().(*types.Struct)
	if !ok {
		if _, isP := b.T.Underlying().(*types.Pointer); isP {
			defer func() { recover() }()
			return e.selectField(b, name), true
		}
		return Val{}, false
	}
	for i := 0; i < st.NumFields(); i++ {
		if st.Field(i).Name() == name {
			lo, hi := fieldRange(b.T, i)
			return sub(b, st.Field(i).Type(), lo, hi), true
		}
	}
	return Val{}, false
}

func (e *SEnv) indexVal(b, iv Val) Val {
	if b.T == nil {
		sfail("index of spec value")
	}
	switch t := b.T.Underlying().(type) {
	case *types.Basic:
		i := e.intOf(iv)
		return Val{T: types.Typ[types.Uint8], C: []Term{Select(b.C[0], Add(b.C[1], i))}}
	case *types.Slice:
		i := e.intOf(iv)
		abs := Add(b.C[1], i)
		var p *Place
		if b.Bk != nil {
			p = b.Bk.withIndex(abs)
		} else {
			p = &Place{Kind: PElem, Base: b.C[0], Idx: abs, Root: t.Elem()}
		}
		v := e.st.load(p)
		if _, isPtr := t.Elem().Underlying().(*types.Pointer); isPtr {
			v.P = nil
		}
		return v
	case *types.Array:
		i := e.intOf(iv)
		out := Val{T: t.Elem(), C: make([]Term, len(b.C))}
		for k, c := range b.C {
			out.C[k] = Select(c, i)
		}
		return out
	case *types.Map:
		_, val := e.r.mapLookup(e.st, b, iv)
		return val
	case *types.Pointer:
		if at, ok := t.Elem().Underlying().(*types.Array); ok {
			_ = at
			return e.st.load(e.r.placeOf(b).withIndex(e.intOf(iv)))
		}
	}
	sfail("cannot index %v", b.T)
	return Val{}
}

func (e *SEnv) lenOf(v Val) Term {
	if v.T == nil {
		sfail("len of spec value")
	}
	switch t := v.T.Underlying().(type) {
	case *types.Basic:
		if t.Info()&types.IsString != 0 {
			return v.C[2]
		}
	case *types.Slice:
		return v.C[2]
	case *types.Array:
		return IntLit(t.Len())
	case *types.Map:
		return e.r.mapLen(e.st, v)
	case *types.Pointer:
		if at, ok := t.Elem().Underlying().(*types.Array); ok {
			return IntLit(at.Len())
		}
	}
	sfail("len of %v", v.T)
	return Term{}
}

// specEq: equality in contracts. Strings and slices compare by content.
func (e *SEnv) specEq(a, b Val) Term {
	if isSpecNil(a) {
		a, b = b, a
	}
	if isSpecNil(b) {
		if a.T == nil {
			return Eq(a.C[0], Zero)
		}
		switch a.T.Underlying().(type) {
		case *types.Slice:
			return Eq(a.C[0], Zero)
		case *types.Interface:
			return Eq(a.C[0], Zero)
		}
		return Eq(a.C[0], Zero)
	}
	if a.T != nil && b.T != nil && isSlice(a.T) && isSlice(b.T) {
		et := elemOf(a.T)
		ls := layout(et)
		j := BoundVar("j")
		cs := []Term{Eq(a.C[2], b.C[2])}
		for k := range ls {
			if ls[k].Sort != SInt && ls[k].Sort != SBool {
				sfail("== on slices of %v is not supported", et)
			}
			aa, ba := e.st.backingArr(a, et, k), e.st.backingArr(b, et, k)
			cs = append(cs, Forall([]Term{j}, Implies(And(Le(Zero, j), Lt(j, a.C[2])),
				Eq(Select(aa, Add(a.C[1], j)), Select(ba, Add(b.C[1], j))))))
		}
		return And(cs...)
	}
	// string vs []byte content comparison
	if a.T != nil && b.T != nil && (isString(a.T) && isSlice(b.T) || isSlice(a.T) && isString(b.T)) {
		if isSlice(a.T) {
			a, b = b, a
		}
		et := elemOf(b.T)
		ba := e.st.backingArr(b, et, 0)
		j := BoundVar("j")
		return And(Eq(a.C[2], b.C[2]), Forall([]Term{j}, Implies(And(Le(Zero, j), Lt(j, a.C[2])),
			Eq(Select(a.C[0], Add(a.C[1], j)), Select(ba, Add(b.C[1], j))))))
	}
	if a.T == nil || b.T == nil {
		if (a.T == nil && len(a.C) == 1 && strings.HasPrefix(a.C[0].S, "nevercalled")) || (b.T == nil && len(b.C) == 1 && strings.HasPrefix(b.C[0].S, "nevercalled")) {
			// lastret(...) of a function that was not called on this path: an arbitrary value
			return Fresh("nevercalled_eq", SBool)
		}
		if len(a.C) != 1 || len(b.C) != 1 {
			sfail("== between spec value and %d-component value", len(a.C)+len(b.C)-1)
		}
		return Eq(a.C[0], b.C[0])
	}
	return e.r.valEq(e.st, a, b)
}

func (e *SEnv) evalBin(n *SBin) Val {
	switch n.Op {
	case "&&":
		// short-circuit on a syntactically decided left operand (the right one may not be evaluable then,
		// e.g. capt() of a function literal that litof() has just excluded)
		l := e.boolOf(e.eval(n.L))
		if l.S == "false" {
			return specBool(False)
		}
		return specBool(And(l, e.boolOf(e.eval(n.R))))
	case "||":
		l := e.boolOf(e.eval(n.L))
		if l.S == "true" {
			return specBool(True)
		}
		return specBool(Or(l, e.boolOf(e.eval(n.R))))
	case "==>":
		l := e.boolOf(e.eval(n.L))
		if l.S == "false" {
			return specBool(True)
		}
		return specBool(Implies(l, e.boolOf(e.eval(n.R))))
	case "<==>":
		return specBool(Eq(e.boolOf(e.eval(n.L)), e.boolOf(e.eval(n.R))))
	case "==":
		return specBool(e.specEq(e.eval(n.L), e.eval(n.R)))
	case "!=":
		return specBool(Not(e.specEq(e.eval(n.L), e.eval(n.R))))
	}
	a, b := e.intOf(e.eval(n.L)), e.intOf(e.eval(n.R))
	switch n.Op {
	case "+":
		return specInt(Add(a, b))
	case "-":
		return specInt(Sub(a, b))
	case "*":
		return specInt(Mul(a, b))
	case "/":
		return specInt(Div(a, b))
	case "%":
		return specInt(Mod(a, b))
	case "<":
		return specBool(Lt(a, b))
	case "<=":
		return specBool(Le(a, b))
	case ">":
		return specBool(Gt(a, b))
	case ">=":
		return specBool(Ge(a, b))
	}
	sfail("operator %s", n.Op)
	return Val{}
}

func (e *SEnv) evalQuant(n *SQuant) Val {
	bv := BoundVar(n.Var)
	var guardOf func() Term
	if n.Keys != nil {
		m := e.eval(n.Keys)
		if m.T == nil {
			sfail("keys(): map expected")
		}
		if _, ok := m.T.Underlying().(*types.Map); !ok {
			sfail("keys(): map expected")
		}
		dom := Select(e.r.mapDom(e.st, m), m.C[0])
		guardOf = func() Term { return And(Ne(m.C[0], Zero), Select(dom, bv)) }
	} else if n.Lo == nil && n.Hi == nil {
		guardOf = func() Term { return True }
	} else {
		lo, hi := e.intOf(e.eval(n.Lo)), e.intOf(e.eval(n.Hi))
		guardOf = func() Term { return And(Le(lo, bv), Lt(bv, hi)) }
	}
	prev, had := e.bound[n.Var]
	e.bound[n.Var] = bv
	outer := e.facts
	e.facts = nil
	body := e.boolOf(e.eval(n.Body))
	inner := e.facts
	e.facts = outer
	// e.st.side points at e.facts via pointer; restore the pointed slice
	if had {
		e.bound[n.Var] = prev
	} else {
		delete(e.bound, n.Var)
	}
	guard := guardOf()
	if len(inner) > 0 {
		e.facts = append(e.facts, Forall([]Term{bv}, Implies(guard, And(inner...))))
	}
	if n.Forall {
		return specBool(Forall([]Term{bv}, Implies(guard, body)))
	}
	return specBool(Exists([]Term{bv}, And(guard, body)))
}

func (e *SEnv) evalCall(n *SCall) Val {
	if e.callSite {
		switch n.Fun {
		case "calls":
			return specInt(Fresh("cs_calls", SInt))
		case "calledwith", "argsat", "lastretb", "mapsamesince":
			return specBool(Fresh("cs_hist", SBool))
		case "lastret", "lastarg":
			return Val{T: nil, C: []Term{Fresh("cs_val", SInt)}}
		}
	}
	switch n.Fun {
	case "len":
		return specInt(e.lenOf(e.eval(n.Args[0])))
	case "cap":
		v := e.eval(n.Args[0])
		if v.T != nil && isSlice(v.T) {
			return specInt(v.C[3])
		}
		sfail("cap of %v", v.T)
	case "old":
		if e.old == nil {
			return e.eval(n.Args[0])
		}
		cur := e.st
		e.st = e.old
		savedOld := e.old
		e.old = nil
		v := e.eval(n.Args[0])
		e.st = cur
		e.old = savedOld
		return v
	case "fresh":
		v := e.eval(n.Args[0])
		pre := e.st
		if e.old != nil {
			pre = e.old
		}
		if v.T == nil {
			sfail("fresh of spec value")
		}
		return specBool(And(Gt(v.C[0], pre.W), Le(v.C[0], e.st.W)))
	case "ite":
		c := e.boolOf(e.eval(n.Args[0]))
		a, b := e.eval(n.Args[1]), e.eval(n.Args[2])
		out := Val{T: a.T, C: make([]Term, len(a.C))}
		for i := range a.C {
			out.C[i] = Ite(c, a.C[i], b.C[i])
		}
		return out
	case "min", "max":
		a, b := e.intOf(e.eval(n.Args[0])), e.intOf(e.eval(n.Args[1]))
		if n.Fun == "min" {
			return specInt(Ite(Le(a, b), a, b))
		}
		return specInt(Ite(Ge(a, b), a, b))
	case "int", "int64", "int32", "int16", "int8", "uint", "uint64", "uint32", "uint16", "uint8", "byte":
		a := e.intOf(e.eval(n.Args[0]))
		name := n.Fun
		if name == "byte" {
			name = "uint8"
		}
		for _, bt := range types.Typ {
			if bt.Name() == name {
				return Val{T: nil, C: []Term{wrapInt(a, bt)}}
			}
		}
	case "lockinv": // lockinv(obj, "mu"): the declared lock invariant of obj.mu
		obj := e.eval(n.Args[0])
		mu := n.Args[1].(*SStrL).V
		pt, ok := obj.T.Underlying().(*types.Pointer)
		if !ok {
			sfail("lockinv: pointer expected")
		}
		ts := e.r.typeSpecOf(pt.Elem())
		if ts == nil {
			sfail("lockinv: no type contract for %v", pt.Elem())
		}
		saved, had := e.vars["self"]
		e.vars["self"] = obj
		var cs []Term
		for _, c := range ts.LockInv[mu] {
			cs = append(cs, e.boolOf(e.eval(c.E)))
		}
		if had {
			e.vars["self"] = saved
		} else {
			delete(e.vars, "self")
		}
		return specBool(And(cs...))
	case "mapsame", "mapsameexcept": // the map is unchanged w.r.t. old() (except, possibly, at one key)
		if e.old == nil {
			sfail("%s needs a two-state context", n.Fun)
		}
		m := e.eval(n.Args[0])
		if m.T == nil {
			sfail("%s: map expected", n.Fun)
		}
		if _, ok := m.T.Underlying().(*types.Map); !ok {
			sfail("%s: map expected", n.Fun)
		}
		x := BoundVar("k")
		var guard Term = True
		if n.Fun == "mapsameexcept" {
			guard = Ne(x, e.r.mapKeyTerm(e.st, e.eval(n.Args[1])))
		}
		ref := m.C[0]
		cs := []Term{Eq(Select(Select(e.r.mapDom(e.st, m), ref), x), Select(Select(e.r.mapDom(e.old, m), ref), x))}
		for _, l := range layout(elemOf(m.T)) {
			cs = append(cs, Eq(Select(Select(e.r.mapValHeap(e.st, m, l), ref), x), Select(Select(e.r.mapValHeap(e.old, m, l), ref), x)))
		}
		return specBool(Forall([]Term{x}, Implies(guard, And(cs...))))
	case "mapsamesince": // mapsamesince("T.F", m): map m has the same keys and values as right after the most recent call of T.F
		rec, ok := e.st.lastCall[n.Args[0].(*SStrL).V]
		if !ok || rec.post == nil {
			return specBool(False)
		}
		m := e.eval(n.Args[1])
		if m.T == nil {
			sfail("mapsamesince: map expected")
		}
		if _, ok := m.T.Underlying().(*types.Map); !ok {
			sfail("mapsamesince: map expected")
		}
		x := BoundVar("k")
		ref := m.C[0]
		cs := []Term{Eq(Select(Select(e.r.mapDom(e.st, m), ref), x), Select(Select(e.r.mapDom(rec.post, m), ref), x))}
		for _, l := range layout(elemOf(m.T)) {
			cs = append(cs, Eq(Select(Select(e.r.mapValHeap(e.st, m, l), ref), x), Select(Select(e.r.mapValHeap(rec.post, m, l), ref), x)))
		}
		return specBool(And(rec.validTerm(), Forall([]Term{x}, And(cs...)), Eq(Select(e.r.mapCard(e.st, m), ref), Select(e.r.mapCard(rec.post, m), ref))))
	case "fnb", "fni": // fnb(f, x...): the boolean (fni: integer) a func-typed value f returns for these arguments
		// (func-typed parameters are modelled as pure functions of their arguments: funcParamCall)
		fv := e.eval(n.Args[0])
		if fv.T == nil || len(fv.C) != 1 {
			sfail("%s: func-typed value expected", n.Fun)
		}
		as := []Term{fv.C[0]}
		for _, a := range n.Args[1:] {
			av := e.eval(a)
			switch {
			case av.T != nil && isSlice(av.T) && len(layout(elemOf(av.T))) == 1:
				as = append(as, e.st.backingArr(av, elemOf(av.T), 0), av.C[1], av.C[2])
			default:
				as = append(as, av.C...)
			}
		}
		if n.Fun == "fnb" {
			return specBool(uf("fnres0_Bool", SBool, as...))
		}
		return specInt(uf("fnres0_Int", SInt, as...))
	case "unboxed": // unboxed(x): the (non-pointer) value that was put into the interface value x in this function
		iv := e.eval(n.Args[0])
		if iv.T == nil || !isIface(iv.T) || len(iv.C) != 2 {
			sfail("unboxed: interface value expected")
		}
		bv, ok := e.st.boxes[iv.C[1].S]
		if !ok {
			sfail("unboxed: the dynamic value of the interface is not known here")
		}
		return bv
	case "litof": // litof(f): k when the func value f is the k-th function literal ($k) of the function under contract, 0 for any other function value
		fv := e.eval(n.Args[0])
		if fv.Clo == nil || fv.Clo.Fn == nil {
			return specInt(Zero)
		}
		name := fv.Clo.Fn.Name()
		if i := strings.LastIndex(name, "$"); i >= 0 {
			if k, err := strconv.Atoi(name[i+1:]); err == nil {
				return specInt(IntLit(int64(k)))
			}
		}
		return specInt(Zero)
	case "capt": // capt(f, "x"): the current value of the variable x captured by the function literal f
		fv := e.eval(n.Args[0])
		if fv.Clo == nil || fv.Clo.Fn == nil {
			sfail("capt: the function value is not a known function literal")
		}
		want := n.Args[1].(*SStrL).V
		for i, v := range fv.Clo.Fn.FreeVars {
			if v.Name() == want && i < len(fv.Clo.Bindings) {
				return e.st.load(e.r.placeOf(fv.Clo.Bindings[i]))
			}
		}
		sfail("capt: %s does not capture %s", fv.Clo.Fn.Name(), want)
	case "calls": // calls("T.F"): how many times this function body has called the contracted callee so far
		return specInt(e.r.callsTerm(e.st, n.Args[0].(*SStrL).V))
	case "calledwith": // calledwith("T.F", i, x): the most recent call of T.F passed x as argument i (false if never called)
		rec, ok := e.st.lastCall[n.Args[0].(*SStrL).V]
		if !ok {
			return specBool(False)
		}
		idx, isLit := n.Args[1].(*SIntL)
		if !isLit || !idx.V.IsInt64() || int(idx.V.Int64()) >= len(rec.args) {
			sfail("calledwith: bad argument index")
		}
		return specBool(And(rec.validTerm(), e.specEq(rec.args[idx.V.Int64()], e.eval(n.Args[2]))))
	case "icall": // icall("Method", recv, args...): the result a read-only interface method returns in this state
		mname := n.Args[0].(*SStrL).V
		recv := e.eval(n.Args[1])
		if recv.T == nil || !isIface(recv.T) {
			sfail("icall: interface value expected")
		}
		var margs []Val
		for _, a := range n.Args[2:] {
			margs = append(margs, e.eval(a))
		}
		ms := types.NewMethodSet(recv.T)
		var fn *types.Func
		for i := 0; i < ms.Len(); i++ {
			if ms.At(i).Obj().Name() == mname {
				fn, _ = ms.At(i).Obj().(*types.Func)
			}
		}
		if fn == nil {
			sfail("icall: no method %s on %v", mname, recv.T)
		}
		sig := fn.Type().(*types.Signature)
		if sig.Results().Len() != 1 {
			sfail("icall: %s must have exactly one result", mname)
		}
		if !e.r.pureIfaceMethod(typeKey(recv.T), mname) {
			sfail("icall: %s is not declared read-only (pureiface)", mname)
		}
		return e.r.pureIfaceResult(e.st, typeKey(recv.T), mname, recv, margs, sig.Results().At(0).Type())
	case "visited": // visited(k): key k has already been produced by the (innermost active) map range loop
		if e.frame == nil || len(e.frame.iters) == 0 {
			sfail("visited(): no map range loop in scope")
		}
		var id string
		for _, v := range e.frame.iters {
			if v > id {
				id = v
			}
		}
		vis, ok := e.st.ghost[id]
		if !ok {
			sfail("visited(): iterator state missing")
		}
		k := e.eval(n.Args[0])
		return specBool(Select(vis, e.r.mapKeyTerm(e.st, k)))
	case "argsat": // argsat("T.F", i, "P_pred"): the most recent call of T.F passed an argument i satisfying P_pred (false if never called)
		rec, ok := e.st.lastCall[n.Args[0].(*SStrL).V]
		if !ok {
			return specBool(False)
		}
		idx, isLit := n.Args[1].(*SIntL)
		if !isLit || !idx.V.IsInt64() || int(idx.V.Int64()) >= len(rec.args) {
			sfail("argsat: bad argument index")
		}
		return specBool(And(rec.validTerm(), uf(n.Args[2].(*SStrL).V, SBool, rec.args[idx.V.Int64()].C...)))
	case "lastarg": // lastarg("T.F", i): argument i of the most recent call of T.F (spec error if never called on this path)
		rec, ok := e.st.lastCall[n.Args[0].(*SStrL).V]
		idx, isLit := n.Args[1].(*SIntL)
		if !ok || !isLit || !idx.V.IsInt64() || int(idx.V.Int64()) >= len(rec.args) {
			return Val{T: nil, C: []Term{Fresh("noarg", SInt)}}
		}
		return rec.args[idx.V.Int64()]
	case "lastret", "lastretb": // first result of the most recent call of T.F; if never called: an arbitrary integer (lastret) / false (lastretb)
		rec, ok := e.st.lastCall[n.Args[0].(*SStrL).V]
		ri := 0
		if len(n.Args) > 1 {
			if il, isLit := n.Args[1].(*SIntL); isLit && il.V.IsInt64() {
				ri = int(il.V.Int64())
			}
		}
		if !ok || len(rec.rets) <= ri {
			if n.Fun == "lastretb" {
				return specBool(False)
			}
			// never called on this path: an arbitrary value -- of the callee's result type when the
			// function under verification contains such a call (so that field selections type-check)
			if sig := e.r.histSigs[n.Args[0].(*SStrL).V]; sig != nil && sig.Results().Len() > ri && !ok {
				return freshVal("nevercalled", sig.Results().At(ri).Type())
			}
			return specInt(Fresh("nevercalled", SInt))
		}
		return rec.rets[ri]
	case "global": // global("pkg/path.Name"): a package-level variable (e.g. the error sentinel io.EOF)
		full := n.Args[0].(*SStrL).V
		i := strings.LastIndex(full, ".")
		if i < 0 {
			sfail("global: pkg.Name expected")
		}
		p := e.r.pkgByPath(full[:i])
		if p == nil {
			sfail("global: package %s not loaded", full[:i])
		}
		if v, ok := e.lookupPkgMember(p, full[i+1:]); ok {
			return v
		}
		sfail("global: %s not found", full)
	case "flen", "fpos", "fsynced": // ghost file model: length, position, durably synced length of an *os.File
		f := e.eval(n.Args[0])
		return specInt(Select(fileHeap(e.st, n.Fun[1:]), fileRef(f)))
	case "fbyte": // fbyte(f, i): byte i of the file's content
		f := e.eval(n.Args[0])
		i := e.intOf(e.eval(n.Args[1]))
		return Val{T: types.Typ[types.Uint8], C: []Term{Select(Select(fileHeap(e.st, "content"), fileRef(f)), i)}}
	case "flt", "feq", "fle": // the Go relations < == <= on float values (uninterpreted; see the float axioms)
		a, b := e.eval(n.Args[0]), e.eval(n.Args[1])
		if len(a.C) != 1 || len(b.C) != 1 {
			sfail("%s: float values expected", n.Fun)
		}
		return specBool(uf(n.Fun, SBool, a.C[0], b.C[0]))
	case "entrymem": // entrymem(): everything that existed at function entry still has its entry content
		if e.old == nil {
			sfail("entrymem() needs a two-state context")
		}
		var cs []Term
		keys := make([]string, 0, len(e.st.heap))
		for k := range e.st.heap {
			keys = append(keys, k)
		}
		sort.Strings(keys)
		for _, k := range keys {
			now := e.st.heap[k]
			info, ok := rawHeapInfo[k]
			if !ok {
				continue
			}
			was, had := e.old.heap[k]
			if !had {
				was = Sym(fmt.Sprintf("%s@%d", info.sym, e.old.epoch), info.sort)
			}
			if now.S == was.S {
				continue
			}
			// entrymem("T.f", ...): heap components the function is allowed to have written
			skip := false
			for _, a := range n.Args {
				if sl, isStr := a.(*SStrL); isStr {
					if i := strings.LastIndex(sl.V, "."); i > 0 && strings.HasSuffix(k, "|"+sl.V[i+1:]) && strings.Contains(k, sl.V[:i]+"|") {
						skip = true
					}
				}
			}
			if skip {
				continue
			}
			rv := BoundVar("r")
			cs = append(cs, Forall([]Term{rv}, Implies(And(Le(Zero, rv), Le(rv, e.old.W)), Eq(Select(now, rv), Select(was, rv)))))
		}
		return specBool(And(cs...))
	case "ipay": // identity of the object held by an interface value (its payload reference)
		a := e.eval(n.Args[0])
		if a.T == nil && len(a.C) == 1 && strings.HasPrefix(a.C[0].S, "nevercalled") {
			// lastret() of a call this function never makes (untyped): an arbitrary identity
			return specInt(Fresh("nevercalled", SInt))
		}
		if a.T == nil || !isIface(a.T) {
			sfail("ipay needs an interface value")
		}
		return specInt(a.C[1])
	case "refid": // identity (reference) of a pointer, channel, map or slice value
		a := e.eval(n.Args[0])
		if a.T == nil || len(a.C) == 0 {
			sfail("refid needs a reference value")
		}
		return specInt(a.C[0])
	case "sliceoff": // offset of a slice within its backing array
		a := e.eval(n.Args[0])
		if a.T == nil || !isSlice(a.T) {
			sfail("sliceoff needs a slice")
		}
		return specInt(a.C[1])
	case "bytesat": // bytesat(ref, i): byte i of the backing array identified by ref
		ref, i := e.intOf(e.eval(n.Args[0])), e.intOf(e.eval(n.Args[1]))
		u8 := types.Typ[types.Uint8]
		return Val{T: u8, C: []Term{Select(Select(e.st.heapGet("M", u8, layout(u8)[0]), ref), i)}}
	case "sliceid": // identity of the backing array of a slice
		a := e.eval(n.Args[0])
		if a.T == nil || !isSlice(a.T) {
			sfail("sliceid needs a slice")
		}
		return specInt(a.C[0])
	case "prefixof": // prefixof(a, b): slice a is b[:len(a)] (same memory)
		a, b := e.eval(n.Args[0]), e.eval(n.Args[1])
		if a.T == nil || b.T == nil || !isSlice(a.T) || !isSlice(b.T) {
			sfail("prefixof needs two slices")
		}
		return specBool(And(Eq(a.C[0], b.C[0]), Eq(a.C[1], b.C[1]), Le(a.C[2], b.C[2])))
	case "math":
		return specInt(e.intOf(e.eval(n.Args[0])))
	case "has": // has(m, k): key k present in map m
		m := e.eval(n.Args[0])
		if m.T == nil {
			// not a map value (e.g. lastret() of a callee that was not called on this path): no key is present
			return specBool(False)
		}
		if _, isMap := m.T.Underlying().(*types.Map); !isMap {
			sfail("has: map expected, got %v", m.T)
		}
		ok, _ := e.r.mapLookup(e.st, m, e.eval(n.Args[1]))
		return specBool(ok)
	case "closed":
		ch := e.eval(n.Args[0])
		return specBool(e.r.chanClosed(e.st, ch))
	case "isnil":
		return specBool(e.specEq(e.eval(n.Args[0]), specNil))
	case "keyof": // keyof(x): the map-key identity of the value x (what `forall k in keys(m)` binds k to)
		return specInt(e.r.mapKeyTerm(e.st, e.eval(n.Args[0])))
	case "asptr": // asptr(x, "T"): the pointer of type *T (T a named type of the package under verification) held by the interface value x
		iv := e.eval(n.Args[0])
		if iv.T == nil || !isIface(iv.T) || len(iv.C) != 2 {
			sfail("asptr: interface value expected")
		}
		tn := n.Args[1].(*SStrL).V
		if e.pkg == nil {
			sfail("asptr: no package in scope")
		}
		obj := e.pkg.Pkg.Scope().Lookup(tn)
		if obj == nil {
			sfail("asptr: unknown type %s", tn)
		}
		return Val{T: types.NewPointer(obj.Type()), C: []Term{iv.C[1]}}
	case "holdsptr": // holdsptr(x, "T"): the interface value x holds a non-nil *T
		iv := e.eval(n.Args[0])
		if iv.T == nil || !isIface(iv.T) || len(iv.C) != 2 {
			sfail("holdsptr: interface value expected")
		}
		tn := n.Args[1].(*SStrL).V
		obj := e.pkg.Pkg.Scope().Lookup(tn)
		if obj == nil {
			sfail("holdsptr: unknown type %s", tn)
		}
		return specBool(And(Eq(iv.C[0], typeTag(types.NewPointer(obj.Type()))), Ne(iv.C[1], Zero)))
	case "typeis": // typeis(x, "pkg.Type")
		v := e.eval(n.Args[0])
		s := n.Args[1].(*SStrL).V
		return specBool(Eq(v.C[0], e.r.typeTagByName(s)))
	case "ghost":
		name := n.Args[0].(*SStrL).V
		g, ok := e.st.ghost["spec:"+name]
		if !ok {
			g = Sym(fmt.Sprintf("ghost_%s@%d", sanitize(name), e.st.epoch), SInt)
			e.st.ghost["spec:"+name] = g
		}
		return Val{C: []Term{g}}
	case "bytes": // bytes(s): view a string/slice as itself (identity, for readability)
		return e.eval(n.Args[0])
	case "str": // str(b): the string with the bytes of b
		v := e.eval(n.Args[0])
		if v.T != nil && isSlice(v.T) {
			return Val{T: types.Typ[types.String], C: []Term{e.st.backingArr(v, elemOf(v.T), 0), v.C[1], v.C[2]}}
		}
		return v
	case "deref":
		v := e.eval(n.Args[0])
		return e.st.load(e.r.placeOf(v))
	case "held":
		p := e.lockPlace(n.Args[0])
		_, ok := e.st.held[lockKey(p)]
		return specBool(BoolLit(ok))
	}
	if ps, ok := e.r.specs.Pures[n.Fun]; ok {
		if len(ps.Formals) != len(n.Args) {
			sfail("pure %s: arity", n.Fun)
		}
		if e.depth > 40 {
			sfail("pure %s: recursion too deep", n.Fun)
		}
		saved := map[string]Val{}
		had := map[string]bool{}
		args := make([]Val, len(n.Args))
		for i, a := range n.Args {
			args[i] = e.eval(a)
		}
		for i, f := range ps.Formals {
			saved[f], had[f] = e.vars[f]
			e.vars[f] = args[i]
		}
		sb := e.bound
		e.bound = map[string]Term{}
		for k, v := range sb {
			e.bound[k] = v
		}
		for _, f := range ps.Formals {
			delete(e.bound, f)
		}
		fr := e.frame
		e.frame = nil
		e.depth++
		v := e.eval(ps.Body)
		e.depth--
		e.frame = fr
		e.bound = sb
		for _, f := range ps.Formals {
			if had[f] {
				e.vars[f] = saved[f]
			} else {
				delete(e.vars, f)
			}
		}
		return v
	}
	// uninterpreted spec function over the scalar components of its arguments
	if strings.HasPrefix(n.Fun, "U_") || strings.HasPrefix(n.Fun, "P_") {
		var args []Term
		for _, a := range n.Args {
			v := e.eval(a)
			switch {
			case v.T != nil && isSlice(v.T) && len(layout(elemOf(v.T))) == 1:
				// content-based: (array, offset, length)
				args = append(args, e.st.backingArr(v, elemOf(v.T), 0), v.C[1], v.C[2])
			default:
				args = append(args, v.C...)
			}
		}
		if strings.HasPrefix(n.Fun, "P_") {
			return specBool(uf(n.Fun, SBool, args...))
		}
		return specInt(uf(n.Fun, SInt, args...))
	}
	sfail("unknown spec function %q", n.Fun)
	return Val{}
}

func (e *SEnv) lockPlace(x SExpr) *Place {
	switch n := x.(type) {
	case *SSel:
		b := e.eval(n.X)
		pt, ok := b.T.Underlying().(*types.Pointer)
		if !ok {
			sfail("lock path through non-pointer")
		}
		st := pt.Elem().Underlying().(*types.Struct)
		for i := 0; i < st.NumFields(); i++ {
			if st.Field(i).Name() == n.Name {
				return e.r.placeOf(b).withField(i)
			}
		}
	case *SIdent:
		// a mutex that is a variable captured by the function literal under verification (held(sendMu)):
		// NAME_ptr is the variable itself
		if pv, ok := e.lookupIdent(n.Name + "_ptr"); ok {
			if _, isPtr := pv.T.Underlying().(*types.Pointer); isPtr {
				return e.r.placeOf(pv)
			}
		}
		sfail("held(%s): not a captured mutex variable", n.Name)
	}
	sfail("bad lock expression")
	return nil
}

// ---------- modifies targets ----------

type ModTarget struct {
	Place *Place // field or whole object
	Slice *Val   // element range of a slice
	Lo, Hi Term
	Map   *Val
	All   bool
	Ghost string
	Chans bool
	Arrays types.Type
	File  *Val
	FilePosOnly bool
}

func (e *SEnv) evalMod(x SExpr) ModTarget {
	switch n := x.(type) {
	case *SSel:
		return ModTarget{Place: e.placeOfExpr(n)}
	case *SSlice:
		b := e.eval(n.X)
		if b.T == nil || !isSlice(b.T) {
			sfail("modifies: range of non-slice")
		}
		lo, hi := Zero, b.C[2]
		if n.Lo != nil {
			lo = e.intOf(e.eval(n.Lo))
		}
		if n.Hi != nil {
			hi = e.intOf(e.eval(n.Hi))
		}
		return ModTarget{Slice: &b, Lo: lo, Hi: hi}
	case *SCall:
		switch n.Fun {
		case "all":
			b := e.eval(n.Args[0])
			if _, ok := b.T.Underlying().(*types.Pointer); !ok {
				sfail("modifies all(): not a pointer")
			}
			return ModTarget{Place: e.r.placeOf(b), All: true}
		case "mapof":
			b := e.eval(n.Args[0])
			return ModTarget{Map: &b}
		case "ghost":
			return ModTarget{Ghost: n.Args[0].(*SStrL).V}
		case "chans": // chans(): the open/closed state of channels
			return ModTarget{Chans: true}
		case "file": // file(f): content, length, position and synced length of an *os.File (ghost)
			b := e.eval(n.Args[0])
			return ModTarget{File: &b}
		case "filepos": // filepos(f): only the position
			b := e.eval(n.Args[0])
			return ModTarget{File: &b, FilePosOnly: true}
		case "arrays": // arrays(s): every backing array of s's element type (used when the array is only known under a lock)
			b := e.eval(n.Args[0])
			if b.T == nil || !isSlice(b.T) {
				sfail("arrays() needs a slice")
			}
			return ModTarget{Arrays: elemOf(b.T)}
		case "deref":
			b := e.eval(n.Args[0])
			return ModTarget{Place: e.r.placeOf(b), All: true}
		}
	case *SIdent:
		// a package-level variable
		if e.pkg != nil {
			if g, ok := e.pkg.Members[n.Name].(*ssa.Global); ok {
				return ModTarget{Place: e.r.placeOf(e.r.globalPtr(g)), All: true}
			}
		}
	}
	sfail("unsupported modifies target")
	return ModTarget{}
}

var frameAllocCache = map[*ssa.Function][]*ssa.Alloc{}

// frameAllocs: the named variables of fn -- its stack locals and the heap-allocated ones (variables captured by a
// function literal or whose address escapes are `new` instructions, not Locals).
func frameAllocs(fn *ssa.Function) []*ssa.Alloc {
	symMu.Lock()
	defer symMu.Unlock()
	if a, ok := frameAllocCache[fn]; ok {
		return a
	}
	out := append([]*ssa.Alloc{}, fn.Locals...)
	seen := map[*ssa.Alloc]bool{}
	for _, l := range out {
		seen[l] = true
	}
	isParam := map[string]bool{}
	for _, p := range fn.Params {
		isParam[p.Name()] = true
	}
	for _, b := range fn.Blocks {
		for _, in := range b.Instrs {
			// (the heap copy of a captured PARAMETER is not offered: a formal's name keeps meaning its entry value)
			if a, ok := in.(*ssa.Alloc); ok && a.Heap && a.Comment != "" && !seen[a] && !isParam[a.Comment] {
				seen[a] = true
				out = append(out, a)
			}
		}
	}
	frameAllocCache[fn] = out
	return out
}

var heapAllocCache = map[*ssa.Function][]*ssa.Alloc{}

// heapAllocsOf: every named heap-allocated variable of fn, captured parameters included.
func heapAllocsOf(fn *ssa.Function) []*ssa.Alloc {
	symMu.Lock()
	defer symMu.Unlock()
	if a, ok := heapAllocCache[fn]; ok {
		return a
	}
	var out []*ssa.Alloc
	for _, b := range fn.Blocks {
		for _, in := range b.Instrs {
			if a, ok := in.(*ssa.Alloc); ok && a.Heap && a.Comment != "" {
				out = append(out, a)
			}
		}
	}
	heapAllocCache[fn] = out
	return out
}

package main

import (
	"flag"
	"fmt"
	"os"
	"regexp"
	"sort"
	"strings"
	"time"
)

func main() {
	// go/packages runs `go list`; /repo needs go >= 1.26.2 and no module flags (go.work workspace)
	os.Setenv("PATH", "/opt/veriftools/go1.26.8/bin:"+os.Getenv("PATH"))
	os.Setenv("GOTOOLCHAIN", "local")
	os.Setenv("GOFLAGS", "")
	os.Setenv("GOPROXY", "off")
	os.Setenv("GOSUMDB", "off")
	if len(os.Args) < 2 {
		fmt.Fprintln(os.Stderr, "usage: govc verify|check|dump ...")
		os.Exit(2)
	}
	switch os.Args[1] {
	case "verify":
		cmdVerify(os.Args[2:])
	case "sweep":
		cmdSweep(os.Args[2:])
	case "baseline":
		cmdBaseline(os.Args[2:])
	case "check":
		cmdCheck(os.Args[2:])
	default:
		fmt.Fprintln(os.Stderr, "unknown command")
		os.Exit(2)
	}
}

func scratchDir() string {
	d := fmt.Sprintf("/dev/shm/govc-%d", os.Getpid())
	if err := os.MkdirAll(d, 0o755); err != nil {
		d, _ = os.MkdirTemp("", "govc")
	}
	return d
}

// cmdVerify: developer command — verify every contract (optionally filtered) and print a table.
func cmdVerify(args []string) {
	fs := flag.NewFlagSet("verify", flag.ExitOnError)
	prop := fs.String("prop", "", "property id")
	fnre := fs.String("fn", "", "regexp on function key")
	timeout := fs.Int("t", 10, "solver timeout (s)")
	verbose := fs.Bool("v", false, "print every obligation instance")
	dump := fs.String("dump", "", "write queries of failing obligations to this directory")
	whyDead := fs.Bool("why-dead", false, "for every infeasible path: print the first assumption that makes its path condition unsatisfiable")
	trusted := fs.String("trusted", "/verif/govc/trusted", "trusted spec dir")
	fs.Parse(args)
	t0 := time.Now()
	dirs := dirsForProp(*prop)
	if len(dirs) == 0 {
		fmt.Println("no contract files for", *prop)
		os.Exit(2)
	}
	l, err := loadAll(dirs, *trusted)
	if err != nil {
		fmt.Fprintln(os.Stderr, err)
		os.Exit(2)
	}
	fmt.Printf("loaded %d packages in %.1fs\n", len(l.pkgs), time.Since(t0).Seconds())
	var re *regexp.Regexp
	if *fnre != "" {
		re = regexp.MustCompile(*fnre)
	}
	r := l.newRunner()
	r.curProp = *prop
	var all []*Oblig
	var results []*FnResult
	for _, sp := range l.selectSpecs(*prop, re) {
		fn := l.fns[sp.Key]
		if fn == nil {
			fmt.Printf("STALE  %s: function not found\n", sp.Key)
			continue
		}
		res := l.verifyFunc(r, fn, sp)
		results = append(results, res)
		all = append(all, res.Obligs...)
	}
	for _, lm := range l.specs.Lemmas {
		if *prop != "" && !contains(lm.Props, *prop) {
			continue
		}
		if re != nil && !re.MatchString(lm.Name) {
			continue
		}
		res := l.verifyLemma(r, lm)
		results = append(results, res)
		all = append(all, res.Obligs...)
	}
	fmt.Printf("generated %d obligation instances in %.1fs\n", len(all), time.Since(t0).Seconds())
	cfg := SolverCfg{TimeoutS: *timeout, Scratch: scratchDir(), Parallel: 16}
	defer os.RemoveAll(cfg.Scratch)
	dischargeAll(all, cfg)
	for _, res := range results {
		if res.Err != "" {
			fmt.Printf("NOTVERIFIED %s: %s\n", shortFn(res.Key), res.Err)
			continue
		}
		agg := aggregate(res.Obligs)
		names := make([]string, 0, len(agg))
		for n := range agg {
			names = append(names, n)
		}
		sort.Strings(names)
		ok := 0
		for _, n := range names {
			a := agg[n]
			if a.Status == "discharged" {
				ok++
			}
			if a.Status != "discharged" || *verbose {
				fmt.Printf("  %-11s %s (%d inst, %.2fs, %s) %s\n", a.Status, n, a.N, a.Secs, a.Solver, a.Detail)
			}
		}
		dead := 0
		for _, o := range res.Obligs {
			if o.Kind == "reach" && o.Status == "infeasible" {
				dead++
			}
		}
		deadNote := ""
		if dead > 0 {
			deadNote = fmt.Sprintf(" INFEASIBLE-PATHS=%d", dead)
		}
		fmt.Printf("%-60s paths=%d obligations=%d discharged=%d%s\n", shortFn(res.Key), res.Paths, len(names), ok, deadNote)
		if len(res.Vacuous) > 0 {
			fmt.Printf("  NO-SUCH-CALL %s: the contract mentions calls of %s, but none was recorded on any path\n", shortFn(res.Key), strings.Join(res.Vacuous, ", "))
		}
	}
	if *whyDead {
		seen := map[string]bool{}
		for _, o := range all {
			if o.Kind != "reach" || o.Status != "infeasible" {
				continue
			}
			lo, hi := 0, len(o.PC)
			for lo < hi {
				mid := (lo + hi) / 2
				q := (&Oblig{PC: o.PC[:mid], Goal: False}).buildQuery(false)
				if oneShot(q, 5) == "unsat" {
					hi = mid
				} else {
					lo = mid + 1
				}
			}
			culprit := "(whole path condition)"
			if lo >= 1 && lo <= len(o.PC) {
				culprit = o.PC[lo-1].S
			}
			if len(culprit) > 300 {
				culprit = culprit[:300] + "…"
			}
			key := o.Name + "|" + culprit
			if seen[key] {
				continue
			}
			seen[key] = true
			fmt.Printf("DEAD %s trail=%s\n     first contradicting assumption (#%d of %d): %s\n", o.Name, o.Trail, lo, len(o.PC), culprit)
		}
	}
	if *dump != "" {
		os.MkdirAll(*dump, 0o755)
		for i, o := range all {
			if o.Status != "discharged" || (os.Getenv("GOVC_DUMP_RE") != "" && regexp.MustCompile(os.Getenv("GOVC_DUMP_RE")).MatchString(o.Name)) {
				os.WriteFile(fmt.Sprintf("%s/%03d-%s.smt2", *dump, i, sanitize(o.Name)), []byte("; "+o.Name+" "+o.Status+" "+o.Pos+" "+o.Trail+"\n"+o.Query), 0o644)
			}
		}
	}
	var notes []string
	for n := range r.notes {
		notes = append(notes, n)
	}
	sort.Strings(notes)
	for _, n := range notes {
		fmt.Println("note:", n)
	}
	if os.Getenv("GOVC_MERGE_DEBUG") != "" {
		fmt.Println("merge failures by site:", mergeFailCount)
	}
	fmt.Printf("total %.1fs\n", time.Since(t0).Seconds())
}

type Agg struct {
	Name   string
	Status string
	N      int
	Secs   float64
	Solver string
	Detail string
	Insts  []*Oblig
	Kind   string
}

// aggregate groups obligation instances by name.
func aggregate(obs []*Oblig) map[string]*Agg {
	out := map[string]*Agg{}
	for _, o := range obs {
		a := out[o.Name]
		if a == nil {
			a = &Agg{Name: o.Name, Status: "discharged", Kind: o.Kind}
			out[o.Name] = a
		}
		a.N++
		a.Secs += o.Secs
		a.Insts = append(a.Insts, o)
		if !strings.Contains(a.Solver, o.Solver) {
			if a.Solver != "" {
				a.Solver += ","
			}
			a.Solver += o.Solver
		}
		switch o.Status {
		case "discharged":
		case "refuted":
			a.Status = "refuted"
			a.Detail = o.Pos + " " + o.Trail
		case "infeasible":
			// vacuity guard: some instance of a reach check must be satisfiable (handled below)
		default:
			if a.Status != "refuted" {
				a.Status = "unknown"
				a.Detail = o.Pos + " " + o.Trail + " " + o.Detail
			}
		}
	}
	for _, a := range out {
		if a.Kind != "reach" && a.Kind != "canary" && a.Kind != "cover" {
			continue
		}
		feasible := false
		for _, o := range a.Insts {
			if o.Status == "discharged" {
				feasible = true
			}
		}
		if feasible {
			a.Status = "discharged"
		} else if a.Status != "unknown" {
			a.Status = "infeasible"
		}
	}
	// nopanic[total]: one summary obligation per function under a nopanic contract -- it is discharged
	// iff every panic-freedom obligation of the function is. It is part of the baseline, so a panic
	// site ADDED by a change (a new obligation name) still turns a baseline obligation red.
	panicKinds := map[string]bool{"nil": true, "idx": true, "slice": true, "div": true, "panic": true, "close": true,
		"makeslice": true, "nilmap": true, "typeassert": true, "send": true, "lossless": true, "alloc": true, "deadlock": true}
	type tot struct {
		status, detail string
		proto         *Oblig
		secs          float64
		insts         []*Oblig
	}
	totals := map[string]*tot{}
	// every verified function has a lock-discipline summary, also when it has no lockset obligation at all
	// (all accesses under their locks): an unguarded access ADDED by a change is a new obligation name, and
	// only the summary -- part of the baseline -- turns it into a violation
	for _, a := range out {
		if len(a.Insts) == 0 || a.Insts[0].Spec == nil || a.Kind != "reach" || !strings.HasSuffix(a.Name, "#reach[entry]") {
			continue
		}
		fn := a.Insts[0].Fn + "#lockset"
		if totals[fn] == nil {
			totals[fn] = &tot{status: "discharged", proto: a.Insts[0]}
		}
	}
	for _, a := range out {
		if len(a.Insts) == 0 || a.Insts[0].Spec == nil {
			continue
		}
		// two summaries: panic freedom (functions under nopanic) and lock discipline (every function)
		group := "lockset"
		if a.Kind != "lockset" {
			if !a.Insts[0].Spec.NoPanic {
				continue
			}
			group = "nopanic"
		}
		fn := a.Insts[0].Fn + "#" + group
		t := totals[fn]
		if t == nil {
			t = &tot{status: "discharged", proto: a.Insts[0]}
			totals[fn] = t
		}
		if group == "nopanic" && !panicKinds[a.Kind] {
			continue
		}
		t.secs += a.Secs
		switch a.Status {
		case "discharged":
		case "refuted":
			if t.status != "refuted" {
				t.status, t.detail = "refuted", a.Name+" "+a.Detail
				t.insts = a.Insts
			}
		default:
			// undecided obligations do not turn the summary red (they are reported on their own);
			// only a counter-model does -- that is independent of solver timing
		}
	}
	for fn, t := range totals {
		n := fn + "[total]"
		o := &Oblig{Name: n, Kind: "nopanic", Fn: t.proto.Fn, Status: t.status, Solver: "summary", Props: t.proto.Spec.Props, FnObj: t.proto.FnObj, Spec: t.proto.Spec, Detail: t.detail, Expect: "unsat"}
		ag := &Agg{Name: n, Status: t.status, N: 1, Secs: 0, Solver: "summary", Detail: t.detail, Insts: []*Oblig{o}, Kind: "nopanic"}
		if t.insts != nil {
			ag.Insts = t.insts // the refuted panic-freedom obligation: its query and model go into the replay file
		}
		out[n] = ag
	}
	return out
}


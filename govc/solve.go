package main

// Discharging obligations with z3-new / z3 / cvc5.

import (
	"bytes"
	"context"
	"crypto/sha1"
	"fmt"
	"os"
	"os/exec"
	"path/filepath"
	"strings"
	"sync"
	"time"
)

type SolverCfg struct {
	TimeoutS  int
	Scratch   string
	Parallel  int
	KeepFiles bool
}

func (o *Oblig) buildQuery(models bool) string {
	var b strings.Builder
	var body strings.Builder
	for _, a := range prepareQuery(o.PC, o.Goal) {
		body.WriteString("(assert ")
		body.WriteString(a)
		body.WriteString(")\n")
	}
	text := body.String()
	if models {
		b.WriteString("(set-option :produce-models true)\n")
	}
	b.WriteString("(set-logic ALL)\n")
	for _, d := range declsFor(text) {
		b.WriteString(d)
		b.WriteString("\n")
	}
	b.WriteString(text)
	b.WriteString("(check-sat)\n")
	return b.String()
}

type solverRun struct {
	name string
	args []string
}

func solversFor(timeout int, file string) []solverRun {
	return []solverRun{
		{"z3-new", []string{"z3-new", "-smt2", fmt.Sprintf("-T:%d", timeout), file}},
		{"cvc5", []string{"cvc5", fmt.Sprintf("--tlimit=%d", timeout*1000), file}},
		{"z3", []string{"z3", "-smt2", fmt.Sprintf("-T:%d", timeout), file}},
	}
}

func runSolver(ctx context.Context, sr solverRun, timeout int) (string, float64) {
	t0 := time.Now()
	c, cancel := context.WithTimeout(ctx, time.Duration(timeout+2)*time.Second)
	defer cancel()
	cmd := exec.CommandContext(c, sr.args[0], sr.args[1:]...)
	var out bytes.Buffer
	cmd.Stdout = &out
	cmd.Stderr = &out
	_ = cmd.Run()
	first := strings.TrimSpace(strings.SplitN(out.String(), "\n", 2)[0])
	switch first {
	case "sat", "unsat", "unknown":
	case "timeout":
		first = "unknown"
	default:
		if strings.Contains(out.String(), "unsat") && !strings.Contains(out.String(), "error") {
			first = "unsat"
		} else if first != "" && strings.Contains(first, "error") {
			first = "error: " + first
		} else if first == "" {
			first = "unknown"
		} else {
			first = "error: " + first
		}
	}
	return first, time.Since(t0).Seconds()
}

var queryCache sync.Map // sha1 -> result

type qres struct {
	status, solver string
	secs           float64
}

// discharge decides one obligation.
func discharge(o *Oblig, cfg SolverCfg) {
	if o.Solver == "trivial" && o.Status == "discharged" {
		return // goal folded to true during generation
	}
	q := o.buildQuery(false)
	o.Query = q
	h := fmt.Sprintf("%x", sha1.Sum([]byte(q)))
	if v, ok := queryCache.Load(h); ok {
		r := v.(qres)
		o.Status, o.Solver, o.Secs = r.status, r.solver, 0
		return
	}
	file := filepath.Join(cfg.Scratch, h+".smt2")
	if err := os.WriteFile(file, []byte(q), 0o644); err != nil {
		o.Status = "unknown"
		o.Detail = err.Error()
		return
	}
	if !cfg.KeepFiles {
		defer os.Remove(file)
	}
	want := "unsat"
	if o.Expect == "sat" {
		want = "sat"
	}
	finish := func(res, solver string, secs float64) {
		switch {
		case o.Expect == "sat":
			// vacuity check: sat (or unknown) is fine, unsat means the path is infeasible
			if res == "unsat" {
				o.Status = "infeasible"
			} else if o.Kind == "cover" && res != "sat" {
				// a cover clause is a property obligation: it needs a witness
				o.Status = "unknown"
			} else {
				o.Status = "discharged"
			}
		case res == "unsat":
			o.Status = "discharged"
		case res == "sat":
			o.Status = "refuted"
		default:
			o.Status = "unknown"
			if strings.HasPrefix(res, "error") {
				o.Detail = res
			}
		}
		o.Solver, o.Secs = solver, secs
		queryCache.Store(h, qres{o.Status, solver, secs})
	}
	_ = want
	ctx := context.Background()
	srs := solversFor(cfg.TimeoutS, file)
	// first z3-new with a short budget, then all three in parallel
	first := cfg.TimeoutS
	if first > 3 {
		first = 3
	}
	if o.Expect == "sat" && first > 2 {
		first = 2
	}
	quick := solverRun{"z3-new", []string{"z3-new", "-smt2", fmt.Sprintf("-T:%d", first), file}}
	res, secs := runSolver(ctx, quick, first)
	if res == "unsat" || res == "sat" {
		finish(res, "z3-new", secs)
		return
	}
	if o.Expect == "sat" {
		finish(res, "z3-new", secs)
		return
	}
	type rr struct {
		res, solver string
		secs        float64
	}
	ch := make(chan rr, len(srs))
	cctx, cancel := context.WithCancel(ctx)
	defer cancel()
	for _, sr := range srs {
		go func(sr solverRun) {
			a, b := runSolver(cctx, sr, cfg.TimeoutS)
			ch <- rr{a, sr.name, b}
		}(sr)
	}
	best := rr{"unknown", "", 0}
	for range srs {
		x := <-ch
		if x.res == "unsat" || x.res == "sat" {
			finish(x.res, x.solver, secs+x.secs)
			return
		}
		if strings.HasPrefix(x.res, "error") && !strings.HasPrefix(best.res, "error") {
			best = x
		}
		if x.secs > best.secs && !strings.HasPrefix(best.res, "error") {
			best.secs = x.secs
			best.solver = x.solver
		}
	}
	finish(best.res, "all", secs+best.secs)
}

func dischargeAll(obs []*Oblig, cfg SolverCfg) {
	var wg sync.WaitGroup
	ch := make(chan *Oblig)
	n := cfg.Parallel
	if n <= 0 {
		n = 8
	}
	for i := 0; i < n; i++ {
		wg.Add(1)
		go func() {
			defer wg.Done()
			for o := range ch {
				discharge(o, cfg)
			}
		}()
	}
	for _, o := range obs {
		ch <- o
	}
	close(ch)
	wg.Wait()
}

// modelFor re-runs a refuted obligation asking for the values of the given terms.
func modelFor(o *Oblig, terms []string, cfg SolverCfg) (map[string]string, string) {
	q := o.buildQuery(true)
	var b strings.Builder
	b.WriteString(q)
	if len(terms) > 0 {
		b.WriteString("(get-value (")
		b.WriteString(strings.Join(terms, " "))
		b.WriteString("))\n")
	}
	file := filepath.Join(cfg.Scratch, fmt.Sprintf("model-%x.smt2", sha1.Sum([]byte(q))))
	os.WriteFile(file, []byte(b.String()), 0o644)
	defer os.Remove(file)
	for _, sv := range [][]string{{"z3-new", "-smt2", fmt.Sprintf("-T:%d", cfg.TimeoutS), file}, {"cvc5", "--produce-models", fmt.Sprintf("--tlimit=%d", cfg.TimeoutS*1000), file}} {
		c, cancel := context.WithTimeout(context.Background(), time.Duration(cfg.TimeoutS+2)*time.Second)
		cmd := exec.CommandContext(c, sv[0], sv[1:]...)
		out, _ := cmd.CombinedOutput()
		cancel()
		s := string(out)
		if !strings.HasPrefix(strings.TrimSpace(s), "sat") {
			continue
		}
		vals := parseGetValue(s[strings.Index(s, "sat")+3:])
		return vals, s
	}
	return nil, ""
}

// parseGetValue parses "((t1 v1) (t2 v2) ...)" into a map keyed by term text.
func parseGetValue(s string) map[string]string {
	out := map[string]string{}
	s = strings.TrimSpace(s)
	if !strings.HasPrefix(s, "(") {
		return out
	}
	// tokenise into s-expressions at depth 2
	depth := 0
	start := -1
	for i := 0; i < len(s); i++ {
		switch s[i] {
		case '(':
			depth++
			if depth == 2 {
				start = i
			}
		case ')':
			if depth == 2 && start >= 0 {
				pair := s[start+1 : i]
				k, v := splitPair(pair)
				out[k] = v
				start = -1
			}
			depth--
		}
	}
	return out
}

func splitPair(p string) (string, string) {
	p = strings.TrimSpace(p)
	if strings.HasPrefix(p, "(") {
		d := 0
		for i := 0; i < len(p); i++ {
			if p[i] == '(' {
				d++
			} else if p[i] == ')' {
				d--
				if d == 0 {
					return strings.TrimSpace(p[:i+1]), strings.TrimSpace(p[i+1:])
				}
			}
		}
	}
	i := strings.IndexAny(p, " \t\n")
	if i < 0 {
		return p, ""
	}
	return p[:i], strings.TrimSpace(p[i:])
}

package main

// Loop cutting: invariants, havoc of everything the body modifies.

import (
	"fmt"
	"go/token"
	"go/types"
	"sort"
	"strings"

	"golang.org/x/tools/go/ssa"
)

// specRecorder drives the speculative execution of one loop body that
// discovers which heap components / ghost variables the body modifies.
type specRecorder struct {
	depth    int // index of the loop's frame in st.frames
	frameID  int
	hdr      *ssa.BasicBlock
	body     map[int]bool
	headHeap map[string]Term
	headGhost map[string]Term
	headHeld map[string]string
	mods     map[string]bool   // heap keys modified
	oldBase  map[string]bool   // heap keys written at a reference that existed before the loop
	oldBases map[string]map[string]bool // ... and the (textual) references written, per key
	ghostMod map[string]bool
	callRecs map[string]callRec // most recent call records of callees called in the body (shape only)
	wMoved   bool
	epoch0   int
	heldDiff bool
	deep     bool
}

// stop is called before each step while a recorder is active.
func (s *specRecorder) stop(st *State, f *Frame) bool {
	// paths that leave the loop do not influence the state seen at the loop head:
	// only arrivals at the back edge are recorded (see gotoBlock)
	if len(st.frames)-1 < s.depth {
		st.dead = true
		return true
	}
	if len(st.frames)-1 == s.depth && f.id == s.frameID && f.ip == 0 && !s.body[f.blk.Index] {
		st.dead = true
		return true
	}
	return false
}

func (s *specRecorder) matches(st *State, f *Frame, to *ssa.BasicBlock) bool {
	return len(st.frames)-1 == s.depth && f.id == s.frameID && to == s.hdr
}

func (s *specRecorder) record(st *State) {
	if st.epoch != s.epoch0 {
		s.deep = true
	}
	for k, t := range st.heap {
		h, ok := s.headHeap[k]
		if !ok || h.S != t.S {
			s.mods[k] = true
		}
	}
	for k, bases := range st.writes {
		for _, b := range bases {
			if !st.allocLog[b] {
				s.oldBase[k] = true
				if s.oldBases == nil {
					s.oldBases = map[string]map[string]bool{}
				}
				if s.oldBases[k] == nil {
					s.oldBases[k] = map[string]bool{}
				}
				s.oldBases[k][b] = true
			}
		}
	}
	for k, t := range st.ghost {
		h, ok := s.headGhost[k]
		if !ok || h.S != t.S {
			s.ghostMod[k] = true
			if strings.HasPrefix(k, "calls:") {
				name := strings.TrimPrefix(k, "calls:")
				if rec, has := st.lastCall[name]; has {
					if s.callRecs == nil {
						s.callRecs = map[string]callRec{}
					}
					s.callRecs[name] = rec
				}
			}
		}
	}
	if len(st.held) != len(s.headHeld) {
		s.heldDiff = true
	}
	for k := range st.held {
		if _, ok := s.headHeld[k]; !ok {
			s.heldDiff = true
		}
	}
}

// cellsStoredInLoop: non-heap Allocs of fn stored to inside the body.
func cellsStoredInLoop(fn *ssa.Function, body map[int]bool) []*ssa.Alloc {
	seen := map[*ssa.Alloc]bool{}
	var out []*ssa.Alloc
	add := func(a *ssa.Alloc) {
		if !seen[a] {
			seen[a] = true
			out = append(out, a)
		}
	}
	var rootAlloc func(v ssa.Value) *ssa.Alloc
	rootAlloc = func(v ssa.Value) *ssa.Alloc {
		switch x := v.(type) {
		case *ssa.Alloc:
			if !x.Heap {
				return x
			}
		case *ssa.FieldAddr:
			return rootAlloc(x.X)
		case *ssa.IndexAddr:
			return rootAlloc(x.X)
		case *ssa.Slice:
			return rootAlloc(x.X)
		}
		return nil
	}
	for _, b := range fn.Blocks {
		if !body[b.Index] {
			continue
		}
		for _, in := range b.Instrs {
			switch x := in.(type) {
			case *ssa.Store:
				if a := rootAlloc(x.Addr); a != nil {
					add(a)
				}
			case *ssa.Alloc:
				// re-executed allocation: treated as stored (zeroed) each iteration
			case ssa.CallInstruction:
				// a non-heap cell may be written by copy()/contracts through a slice of an array cell
				for _, a := range x.Common().Args {
					if al := rootAlloc(a); al != nil {
						add(al)
					}
				}
			}
		}
	}
	return out
}

func (r *Runner) loopSpecFor(f *Frame, hdr *ssa.BasicBlock) *LoopSpec {
	if f.spec == nil {
		return nil
	}
	ord := r.loops(f.fn).ord[hdr.Index]
	return f.spec.Loops[ord]
}

func (r *Runner) loopEnv(st *State, f *Frame) *SEnv {
	env := r.newEnv(st, f.fn.Pkg)
	env.frame = f
	if f.spec != nil {
		for i, n := range f.spec.Formals {
			if n != "_" && i < len(f.params) {
				env.vars[n] = f.params[i]
			}
		}
	}
	// captured variables of a function literal under contract: their CURRENT values, by name
	for _, fv := range f.fn.FreeVars {
		if _, clash := env.vars[fv.Name()]; clash {
			continue
		}
		if pv, ok := f.regs[fv]; ok {
			env.vars[fv.Name()] = st.load(r.placeOf(pv))
		}
	}
	if f.entry != nil {
		env.old = r.entryShadow(st, f)
	}
	return env
}

func (r *Runner) loopEnter(st *State, f *Frame, hdr *ssa.BasicBlock) {
	li := r.loops(f.fn)
	body := li.body[hdr.Index]
	ls := r.loopSpecFor(f, hdr)
	ord := li.ord[hdr.Index]
	// 1. invariants hold on entry
	if ls != nil {
		env := r.loopEnv(st, f)
		for _, c := range ls.Invs {
			g := env.EvalBool(c.E, st)
			r.oblige(st, "inv-init", fmt.Sprintf("loop%d.%s", ord, c.Label), g, hdr.Instrs[0].Pos())
		}
	}
	// 2. what does the body modify?  cells statically, heap by a speculative run
	cells := cellsStoredInLoop(f.fn, body)
	pre := st.clone()
	headSeq := curFreshSeq() // symbols created from here on may vary between iterations
	for _, a := range cells {
		key := cellKey{f.id, a}
		if cv, ok := st.cells[key]; ok {
			nv := freshVal("lc_"+a.Comment, cv.T)
			st.assumeRange(nv)
			st.assumeLoadedRefs(nv)
			st.cells[key] = nv
		}
	}
	rec := r.summarise(st, f, hdr, body)
	if rec.heldDiff {
		panic(unsupported("lock state differs between loop head and back edge"))
	}
	_ = pre
	// 3. havoc heap components / ghost / watermark
	headHeap := map[string]Term{}
	for k, v := range st.heap {
		headHeap[k] = v
	}
	wHead := st.W
	keys := make([]string, 0, len(rec.mods))
	for k := range rec.mods {
		keys = append(keys, k)
	}
	sort.Strings(keys)
	if rec.deep {
		r.havocAllHeaps(st)
	}
	for _, k := range keys {
		old, ok := st.heap[k]
		if !ok {
			info := rawHeapInfo[k]
			old = st.rawHeapGet(k, info.sym, info.sort)
		}
		nh := Fresh("lh_"+rawHeapInfo[k].sym, old.Sort)
		if !rec.oldBase[k] && !rec.deep {
			// only freshly allocated references were written: older ones keep their content
			rv := BoundVar("r")
			st.assume(Forall([]Term{rv}, Implies(Le(rv, wHead), Eq(Select(nh, rv), Select(old, rv)))))
		} else if !rec.deep {
			// pre-existing references were written: if each of them is a loop-invariant term
			// (built only from symbols that existed before the loop and from no heap component
			// the loop modifies), every other pre-existing reference keeps its content
			invariant := true
			var bases []string
			for b := range rec.oldBases[k] {
				bases = append(bases, b)
				if b == "*" || newestSymIn(b) > headSeq {
					invariant = false
				}
				for mk := range rec.mods {
					if ht, ok := headHeap[mk]; ok && strings.Contains(b, ht.S) {
						invariant = false
					}
				}
			}
			if invariant && len(bases) > 0 && len(bases) <= 4 {
				sort.Strings(bases)
				rv := BoundVar("r")
				conds := []Term{Le(rv, wHead)}
				for _, b := range bases {
					conds = append(conds, Ne(rv, Term{b, SInt}))
				}
				st.assume(Forall([]Term{rv}, Implies(And(conds...), Eq(Select(nh, rv), Select(old, rv)))))
			}
		}
		st.heap[k] = nh
	}
	gk := make([]string, 0, len(rec.ghostMod))
	for k := range rec.ghostMod {
		gk = append(gk, k)
	}
	sort.Strings(gk)
	for _, k := range gk {
		if old, ok := st.ghost[k]; ok {
			nv := Fresh("lg", old.Sort)
			if strings.HasPrefix(k, "calls:") {
				st.assume(Ge(nv, old)) // call counters only grow
			}
			st.ghost[k] = nv
		} else if strings.HasPrefix(k, "calls:") {
			// a call counter first touched inside the loop: arbitrary at the head of an arbitrary iteration
			// (falling back to its entry value would say "never called so far")
			c := Fresh("lg_calls", SInt)
			st.assume(Ge(c, r.callsTerm(st, strings.TrimPrefix(k, "calls:"))))
			st.ghost[k] = c
		} else {
			delete(st.ghost, k)
		}
	}
	// call history: a callee called in the body has, at the head of an arbitrary iteration, an arbitrary most
	// recent call (arguments and results of the right shape); invariants may constrain it
	if len(rec.callRecs) > 0 {
		names := make([]string, 0, len(rec.callRecs))
		for n := range rec.callRecs {
			names = append(names, n)
		}
		sort.Strings(names)
		nl := make(map[string]callRec, len(st.lastCall)+len(names))
		for k, v := range st.lastCall {
			nl[k] = v
		}
		freshLike := func(v Val, hint string) Val {
			if v.T == nil {
				out := Val{C: make([]Term, len(v.C))}
				for i, c := range v.C {
					out.C[i] = Fresh(hint, c.Sort)
				}
				return out
			}
			nv := freshVal(hint, v.T)
			st.assumeRange(nv)
			st.assumeLoadedRefs(nv)
			return nv
		}
		for _, n := range names {
			shape := rec.callRecs[n]
			if prev, had := nl[n]; had {
				nl["prev:"+n] = prev
			}
			nr := callRec{valid: Fresh("lcvalid", SBool)}
			for _, a := range shape.args {
				nr.args = append(nr.args, freshLike(a, "lcarg"))
			}
			for _, a := range shape.rets {
				nr.rets = append(nr.rets, freshLike(a, "lcret"))
			}
			nl[n] = nr
			delete(nl, "prev:"+n)
		}
		st.lastCall = nl
	}
	st.bumpW()
	// 4. assume invariants
	lr := &loopRun{heapAtHead: headHeap}
	if ls != nil {
		env := r.loopEnv(st, f)
		for _, c := range ls.Invs {
			st.assume(env.EvalBool(c.E, st))
		}
		if ls.Decr != nil {
			lr.decr0 = env.intOf(env.EvalVal(ls.Decr, st))
			lr.hasDecr = true
		}
	}
	r.autoInvariants(st, f, hdr)
	if ls != nil && len(ls.Iter) > 0 {
		lr.headShadow = r.shadow(st)
	}
	f.loops[hdr.Index] = lr
	// locks held across the loop head: the head becomes the reference point of two-state clauses
	for k := range st.held {
		if st.lockSnap != nil && st.lockSnap[k] != nil {
			st.lockSnap[k] = r.shadow(st)
		}
	}
}

// stableAtCut: two-state lock invariants must hold for the segment that ends at a loop back edge
// (they are required to be transitive, so segments compose).
func (r *Runner) stableAtCut(st *State, pos token.Pos) {
	for key := range st.held {
		p := st.heldPlace[key]
		snap := st.lockSnap[key]
		if p == nil || snap == nil || st.held[key] != "w" {
			continue
		}
		owner, mu := r.lockOwner(p)
		if owner == nil {
			continue
		}
		ts := r.typeSpecOf(owner.Root)
		if ts == nil {
			continue
		}
		self := Val{T: types.NewPointer(owner.Root), C: []Term{r.interiorID(st, owner)}, P: owner}
		for _, c := range ts.Stable[mu] {
			env := r.newEnv(st, r.pkgByPath(ts.Pkg))
			env.vars["self"] = self
			env.old = snap
			r.oblige(st, "stable", shortType(owner.Root)+"."+c.Label, env.EvalBool(c.E, st), pos)
		}
	}
}

// autoInvariants: facts about compiler-generated range loops that hold by construction.
func (r *Runner) autoInvariants(st *State, f *Frame, hdr *ssa.BasicBlock) {
	// pattern: t1 = *idx ; t2 = t1 + 1 ; *idx = t2 ; t3 = t2 < N ; if t3
	for _, in := range hdr.Instrs {
		bo, ok := in.(*ssa.BinOp)
		if !ok || bo.Op != token.LSS {
			continue
		}
		add, ok := bo.X.(*ssa.BinOp)
		if !ok || add.Op != token.ADD {
			continue
		}
		ld, ok := add.X.(*ssa.UnOp)
		if !ok || ld.Op != token.MUL {
			continue
		}
		al, ok := ld.X.(*ssa.Alloc)
		if !ok || al.Comment != "rangeindex" || al.Heap {
			continue
		}
		// N must be defined outside the loop (a register) or a constant
		var n Term
		switch nv := bo.Y.(type) {
		case *ssa.Const:
			n = r.constVal(st, nv).C[0]
		default:
			v, has := f.regs[bo.Y]
			if !has {
				continue
			}
			n = v.C[0]
		}
		idx := st.cells[cellKey{f.id, al}].C[0]
		// at the head (before the increment): -1 <= idx <= n-1
		st.assume(Le(IntLit(-1), idx), Implies(Ge(n, Zero), Lt(idx, n)))
	}
}

func (r *Runner) summarise(st *State, f *Frame, hdr *ssa.BasicBlock, body map[int]bool) *specRecorder {
	rec := &specRecorder{depth: len(st.frames) - 1, frameID: f.id, hdr: hdr, body: body,
		headHeap: map[string]Term{}, headGhost: map[string]Term{}, headHeld: map[string]string{},
		mods: map[string]bool{}, oldBase: map[string]bool{}, ghostMod: map[string]bool{}}
	sp := st.clone()
	for k, v := range sp.heap {
		rec.headHeap[k] = v
	}
	for k, v := range sp.ghost {
		rec.headGhost[k] = v
	}
	for k, v := range sp.held {
		rec.headHeld[k] = v
	}
	sp.writes = map[string][]string{}
	sp.allocLog = map[string]bool{}
	rec.epoch0 = sp.epoch
	// run the body once from the head, quietly
	savedWork, savedRec, savedPaths := r.work, r.specRec, r.paths
	r.work = nil
	r.specRec = rec
	r.quiet++
	spf := sp.top()
	spf.blk, spf.ip = hdr, 0
	// mark the loop as not active so a back edge is caught by the recorder
	delete(spf.loops, hdr.Index)
	r.work = append(r.work, sp)
	func() {
		defer func() {
			r.quiet--
			r.specRec = savedRec
			r.work = savedWork
			r.paths = savedPaths
		}()
		// the recorder sees states that die without reaching an exit only via record() calls;
		// deep havocs are detected through the epoch counter
		for len(r.work) > 0 {
			s := r.work[len(r.work)-1]
			r.work = r.work[:len(r.work)-1]
			for !s.dead {
				r.step(s)
				s.steps++
				if s.steps > 200000 {
					panic(unsupported("step limit in loop summary"))
				}
			}
		}
	}()
	return rec
}

func (r *Runner) loopBackEdge(st *State, f *Frame, hdr *ssa.BasicBlock, lr *loopRun) {
	r.stableAtCut(st, hdr.Instrs[0].Pos())
	ls := r.loopSpecFor(f, hdr)
	if ls == nil {
		return
	}
	ord := r.loops(f.fn).ord[hdr.Index]
	env := r.loopEnv(st, f)
	pos := hdr.Instrs[0].Pos()
	for _, c := range ls.Invs {
		g := env.EvalBool(c.E, st)
		r.oblige(st, "inv-step", fmt.Sprintf("loop%d.%s", ord, c.Label), g, pos)
	}
	if lr.headShadow != nil {
		ienv := r.loopEnv(st, f)
		ienv.old = lr.headShadow
		for _, c := range ls.Iter {
			g := ienv.EvalBool(c.E, st)
			r.oblige(st, "iter", fmt.Sprintf("loop%d.%s", ord, c.Label), g, pos)
		}
	}
	if lr.hasDecr {
		d := env.intOf(env.EvalVal(ls.Decr, st))
		r.oblige(st, "decr", fmt.Sprintf("loop%d", ord), And(Lt(d, lr.decr0), Le(Zero, lr.decr0)), pos)
	}
}

var _ = strings.Contains
var _ types.Type

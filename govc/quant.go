package main

// Quantifier support at query-construction time: skolemisation of the goal's universal
// quantifiers and of assumed existentials, plus neighbour instantiation (c, c+1, c-1) of
// assumed universal facts. Everything added is implied by the original formulas, so the
// transformed query is unsat only if the original one is.

import (
	"strings"
)

type sx struct {
	atom string
	kids []*sx
}

func parseSx(s string) *sx {
	pos := 0
	var parse func() *sx
	skip := func() {
		for pos < len(s) && (s[pos] == ' ' || s[pos] == '\n' || s[pos] == '\t') {
			pos++
		}
	}
	parse = func() *sx {
		skip()
		if pos >= len(s) {
			return &sx{}
		}
		if s[pos] == '(' {
			pos++
			n := &sx{kids: []*sx{}}
			for {
				skip()
				if pos >= len(s) {
					return n
				}
				if s[pos] == ')' {
					pos++
					return n
				}
				n.kids = append(n.kids, parse())
			}
		}
		st := pos
		for pos < len(s) && s[pos] != ' ' && s[pos] != '(' && s[pos] != ')' && s[pos] != '\n' && s[pos] != '\t' {
			pos++
		}
		return &sx{atom: s[st:pos]}
	}
	return parse()
}

func (n *sx) write(b *strings.Builder) {
	if n.kids == nil {
		b.WriteString(n.atom)
		return
	}
	b.WriteByte('(')
	for i, k := range n.kids {
		if i > 0 {
			b.WriteByte(' ')
		}
		k.write(b)
	}
	b.WriteByte(')')
}

func (n *sx) String() string {
	var b strings.Builder
	n.write(&b)
	return b.String()
}

func (n *sx) head() string {
	if n.kids != nil && len(n.kids) > 0 && n.kids[0].kids == nil {
		return n.kids[0].atom
	}
	return ""
}

func (n *sx) subst(v string, t *sx) *sx {
	if n.kids == nil {
		if n.atom == v {
			return t
		}
		return n
	}
	out := &sx{kids: make([]*sx, len(n.kids))}
	for i, k := range n.kids {
		out.kids[i] = k.subst(v, t)
	}
	return out
}

// binder returns (var, sort, body) for a single-variable Int quantifier node.
func (n *sx) binder() (string, *sx, bool) {
	if len(n.kids) != 3 || n.kids[1].kids == nil || len(n.kids[1].kids) != 1 {
		return "", nil, false
	}
	b := n.kids[1].kids[0]
	if b.kids == nil || len(b.kids) != 2 || b.kids[1].atom != "Int" {
		return "", nil, false
	}
	return b.kids[0].atom, n.kids[2], true
}

type qctx struct {
	consts []string // skolem constants / witnesses introduced
}

// skolem removes quantifiers that can be replaced by fresh constants.
// asGoal: the formula is to be PROVED (so positive foralls / negative exists are skolemised);
// otherwise it is ASSUMED (positive exists / negative foralls get witnesses).
func (c *qctx) skolem(n *sx, pos bool, asGoal bool) *sx {
	if n.kids == nil {
		return n
	}
	switch n.head() {
	case "and", "or":
		out := &sx{kids: []*sx{n.kids[0]}}
		for _, k := range n.kids[1:] {
			out.kids = append(out.kids, c.skolem(k, pos, asGoal))
		}
		return out
	case "not":
		return &sx{kids: []*sx{n.kids[0], c.skolem(n.kids[1], !pos, asGoal)}}
	case "=>":
		out := &sx{kids: []*sx{n.kids[0]}}
		for i, k := range n.kids[1:] {
			if i == len(n.kids)-2 {
				out.kids = append(out.kids, c.skolem(k, pos, asGoal))
			} else {
				out.kids = append(out.kids, c.skolem(k, !pos, asGoal))
			}
		}
		return out
	case "forall", "exists":
		isForall := n.head() == "forall"
		v, body, ok := n.binder()
		if !ok {
			return n
		}
		// a quantifier can be eliminated when it behaves universally in a goal or existentially in a fact
		elim := (asGoal && (isForall == pos)) || (!asGoal && (isForall != pos))
		if !elim {
			return n
		}
		k := Fresh("sk", SInt)
		c.consts = append(c.consts, k.S)
		return c.skolem(body.subst(v, &sx{atom: k.S}), pos, asGoal)
	}
	return n
}

// hasQuant reports whether the tree contains a quantifier.
func (n *sx) hasQuant() bool {
	if n.kids == nil {
		return false
	}
	h := n.head()
	if h == "forall" || h == "exists" {
		return true
	}
	for _, k := range n.kids {
		if k.hasQuant() {
			return true
		}
	}
	return false
}

// inst replaces every quantifier that behaves universally (for a fact: positive forall /
// negative exists) by its body at term t. ok is false when nothing was instantiated.
func inst(n *sx, pos bool, t *sx, did *bool) *sx { return instN(n, pos, []*sx{t}, 0, did) }

// univDepth: maximal nesting depth of universally-behaving quantifiers of a fact.
func univDepth(n *sx, pos bool) int {
	if n.kids == nil {
		return 0
	}
	switch n.head() {
	case "and", "or":
		m := 0
		for _, k := range n.kids[1:] {
			if d := univDepth(k, pos); d > m {
				m = d
			}
		}
		return m
	case "not":
		return univDepth(n.kids[1], !pos)
	case "=>":
		m := 0
		for i, k := range n.kids[1:] {
			p := !pos
			if i == len(n.kids)-2 {
				p = pos
			}
			if d := univDepth(k, p); d > m {
				m = d
			}
		}
		return m
	case "forall", "exists":
		isForall := n.head() == "forall"
		_, body, ok := n.binder()
		if !ok || isForall != pos {
			return 0
		}
		return 1 + univDepth(body, pos)
	}
	return 0
}

// instN instantiates nested universally-behaving quantifiers: the quantifier at nesting
// depth d takes ts[d] (the last term is reused for deeper ones).
func instN(n *sx, pos bool, ts []*sx, d int, did *bool) *sx {
	if n.kids == nil {
		return n
	}
	switch n.head() {
	case "and", "or":
		out := &sx{kids: []*sx{n.kids[0]}}
		for _, k := range n.kids[1:] {
			out.kids = append(out.kids, instN(k, pos, ts, d, did))
		}
		return out
	case "not":
		return &sx{kids: []*sx{n.kids[0], instN(n.kids[1], !pos, ts, d, did)}}
	case "=>":
		out := &sx{kids: []*sx{n.kids[0]}}
		for i, k := range n.kids[1:] {
			if i == len(n.kids)-2 {
				out.kids = append(out.kids, instN(k, pos, ts, d, did))
			} else {
				out.kids = append(out.kids, instN(k, !pos, ts, d, did))
			}
		}
		return out
	case "forall", "exists":
		isForall := n.head() == "forall"
		v, body, ok := n.binder()
		if !ok || isForall != pos {
			return n
		}
		*did = true
		t := ts[len(ts)-1]
		if d < len(ts) {
			t = ts[d]
		}
		return instN(body.subst(v, t), pos, ts, d+1, did)
	}
	return n
}

// goalWitnesses weakens nothing: every quantifier that behaves existentially in the goal
// (positive exists / negative forall) is replaced by (or body[c1] ... original).
func goalWitnesses(n *sx, pos bool, cands []*sx) *sx {
	if n.kids == nil {
		return n
	}
	switch n.head() {
	case "and", "or":
		out := &sx{kids: []*sx{n.kids[0]}}
		for _, k := range n.kids[1:] {
			out.kids = append(out.kids, goalWitnesses(k, pos, cands))
		}
		return out
	case "not":
		return &sx{kids: []*sx{n.kids[0], goalWitnesses(n.kids[1], !pos, cands)}}
	case "=>":
		out := &sx{kids: []*sx{n.kids[0]}}
		for i, k := range n.kids[1:] {
			if i == len(n.kids)-2 {
				out.kids = append(out.kids, goalWitnesses(k, pos, cands))
			} else {
				out.kids = append(out.kids, goalWitnesses(k, !pos, cands))
			}
		}
		return out
	case "exists", "forall":
		isExists := n.head() == "exists"
		v, body, ok := n.binder()
		if !ok || isExists != pos || len(cands) == 0 {
			return n
		}
		op := "or"
		if !pos {
			op = "and"
		}
		out := &sx{kids: []*sx{{atom: op}}}
		for _, c := range cands {
			out.kids = append(out.kids, body.subst(v, c))
		}
		out.kids = append(out.kids, n)
		return out
	}
	return n
}

// prepareQuery returns the assertions (facts, then the negated goal) after skolemisation
// and neighbour instantiation.
func prepareQuery(pc []Term, goal Term) []string {
	ctx := &qctx{}
	var facts []*sx
	var plain []string
	seen := map[string]bool{}
	for _, a := range pc {
		if seen[a.S] {
			continue
		}
		seen[a.S] = true
		if !strings.Contains(a.S, "(forall ") && !strings.Contains(a.S, "(exists ") {
			plain = append(plain, a.S)
			continue
		}
		t := ctx.skolem(parseSx(a.S), true, false)
		facts = append(facts, t)
	}
	var g *sx
	if strings.Contains(goal.S, "(forall ") || strings.Contains(goal.S, "(exists ") {
		g = ctx.skolem(parseSx(goal.S), true, true)
	}
	// candidate terms
	var cands []*sx
	if len(ctx.consts) <= 6 {
		for _, k := range ctx.consts {
			cands = append(cands, &sx{atom: k},
				&sx{kids: []*sx{{atom: "+"}, {atom: k}, {atom: "1"}}},
				&sx{kids: []*sx{{atom: "-"}, {atom: k}, {atom: "1"}}})
		}
	} else {
		for _, k := range ctx.consts {
			cands = append(cands, &sx{atom: k})
		}
	}
	cands = append(cands, &sx{atom: "0"}, &sx{atom: "1"}, &sx{atom: "2"}, &sx{atom: "3"})
	// index terms of array reads that the goal depends on (directly or through the
	// definitions of the symbols it mentions) are instantiation candidates as well
	if len(cands) <= 8 {
		goalToks := map[string]bool{}
		for _, tk := range strings.FieldsFunc(goal.S, func(r rune) bool { return r == '(' || r == ')' || r == ' ' }) {
			goalToks[tk] = true
		}
		seenC := map[string]bool{}
		for _, c := range cands {
			seenC[c.String()] = true
		}
		addIdx := func(t *sx) {
			var walk func(n *sx)
			walk = func(n *sx) {
				if n.kids == nil {
					return
				}
				if n.head() == "select" && len(n.kids) == 3 {
					idx := n.kids[2]
					parts := []*sx{idx}
					if idx.kids != nil && idx.head() == "+" {
						parts = append(parts, idx.kids[1:]...)
					}
					for _, p := range parts {
						ps := p.String()
						if len(ps) < 60 && !seenC[ps] && !strings.Contains(ps, "?") && len(cands) < 14 {
							if _, isNum := litVal(Term{ps, SInt}); !isNum {
								seenC[ps] = true
								cands = append(cands, p)
							}
						}
					}
				}
				for _, k := range n.kids {
					walk(k)
				}
			}
			walk(t)
		}
		if strings.Contains(goal.S, "(select ") && !strings.Contains(goal.S, "(forall ") {
			addIdx(parseSx(goal.S))
		}
		for _, p := range plain {
			if !strings.HasPrefix(p, "(= ") || !strings.Contains(p, "(select ") {
				continue
			}
			end := strings.IndexByte(p[3:], ' ')
			if end < 0 || !goalToks[p[3:3+end]] {
				continue
			}
			addIdx(parseSx(p))
		}
	}
	out := plain
	for _, f := range facts {
		s := f.String()
		out = append(out, s)
		if !f.hasQuant() {
			continue
		}
		var tuples [][]*sx
		if univDepth(f, true) >= 2 && len(cands) <= 10 {
			for _, a := range cands {
				for _, b := range cands {
					tuples = append(tuples, []*sx{a, b})
				}
			}
		} else {
			for _, c := range cands {
				tuples = append(tuples, []*sx{c})
			}
		}
		for _, tp := range tuples {
			did := false
			i := instN(f, true, tp, 0, &did)
			if did {
				is := i.String()
				if !seen[is] {
					seen[is] = true
					out = append(out, is)
				}
			}
		}
	}
	gs := goal.S
	if g != nil {
		g = goalWitnesses(g, true, cands)
		gs = g.String()
	}
	out = append(out, "(not "+gs+")")
	return out
}

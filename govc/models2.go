package main

// More standard-library models.

import (
	"strings"
	"fmt"
	"go/constant"
	"go/token"
	"go/types"
	"math/big"

	"golang.org/x/tools/go/ssa"
)

// variadicArgs finds the SSA values stored into the [N]any backing array of a variadic call.
func variadicArgs(v ssa.Value) []ssa.Value {
	sl, ok := v.(*ssa.Slice)
	if !ok {
		return nil
	}
	al, ok := sl.X.(*ssa.Alloc)
	if !ok {
		return nil
	}
	var out []ssa.Value
	for _, ref := range *al.Referrers() {
		ia, ok := ref.(*ssa.IndexAddr)
		if !ok {
			continue
		}
		for _, r2 := range *ia.Referrers() {
			if s, ok := r2.(*ssa.Store); ok && s.Addr == ia {
				out = append(out, s.Val)
			}
		}
	}
	return out
}

// sprintfModel: fmt.Sprintf("%x"|"%d", integer) has a result whose length is the number of digits.
func (r *Runner) sprintfModel(st *State, f *Frame, args []Val, res ssa.Value, in ssa.Instruction) bool {
	call, ok := in.(ssa.CallInstruction)
	if !ok || res == nil {
		return false
	}
	c := call.Common()
	fc, ok := c.Args[0].(*ssa.Const)
	if !ok || fc.Value == nil || fc.Value.Kind() != constant.String {
		return false
	}
	format := constant.StringVal(fc.Value)
	if format != "%x" && format != "%d" {
		return false
	}
	vs := variadicArgs(c.Args[1])
	if len(vs) != 1 {
		return false
	}
	mi, ok := vs[0].(*ssa.MakeInterface)
	if !ok {
		return false
	}
	if _, _, isInt := intInfo(mi.X.Type()); !isInt {
		return false
	}
	x := r.operand(st, mi.X).C[0]
	out := freshVal("sprintf", res.Type())
	st.assumeRange(out)
	ln := out.C[2]
	base := int64(16)
	maxDigits := 16
	if format == "%d" {
		base = 10
		maxDigits = 20
	}
	// non-negative x: exactly the number of digits; negative: one more for the sign
	abs := Ite(Ge(x, Zero), x, Neg(x))
	digits := Fresh("digits", SInt)
	st.assume(Le(One, digits), Le(digits, IntLit(int64(maxDigits))))
	pow := big.NewInt(1)
	for k := 1; k <= maxDigits; k++ {
		lo := new(big.Int).Set(pow)
		pow = new(big.Int).Mul(pow, big.NewInt(base))
		if k == 1 {
			st.assume(Implies(Lt(abs, BigLit(pow)), Eq(digits, One)))
		} else {
			st.assume(Implies(And(Le(BigLit(lo), abs), Lt(abs, BigLit(pow))), Eq(digits, IntLit(int64(k)))))
		}
	}
	st.assume(Eq(ln, Ite(Ge(x, Zero), digits, Add(digits, One))))
	f.regs[res] = out
	_ = types.Typ
	return true
}

// condLockOf: if p is a field declared `cond F on M` in its struct's type contract,
// return the place of mutex M of the same object.
func (r *Runner) condLockOf(p *Place) *Place {
	if len(p.Path) != 1 || p.HasArr {
		return nil
	}
	ts := r.typeSpecOf(p.Root)
	if ts == nil || len(ts.CondOn) == 0 {
		return nil
	}
	stt, ok := p.Root.Underlying().(*types.Struct)
	if !ok {
		return nil
	}
	mu, ok := ts.CondOn[stt.Field(p.Path[0]).Name()]
	if !ok {
		return nil
	}
	for i := 0; i < stt.NumFields(); i++ {
		if stt.Field(i).Name() == mu {
			q := *p
			q.Path = []int{i}
			return &q
		}
	}
	return nil
}

// atomicFuncModel: sync/atomic.{Add,Load,Store}{Int,Uint}{32,64}(addr, ...) as plain (sequentially
// consistent) accesses of the addressed cell; guarded_by checks apply to the cell.
func (r *Runner) atomicFuncModel(st *State, f *Frame, key string, args []Val, res ssa.Value, pos token.Pos) bool {
	p := r.placeOf(args[0])
	t, _, _ := p.typeAt()
	op := key[len("sync/atomic."):]
	switch {
	case len(op) > 3 && op[:3] == "Add":
		r.guardCheck(st, p, true, pos)
		v := st.load(p)
		nv := Val{T: t, C: []Term{st.define("aadd", r.arith(st, Add(v.C[0], args[1].C[0]), t, pos))}}
		r.storeChecked(st, p, nv, pos)
		if res != nil {
			f.regs[res] = Val{T: res.Type(), C: nv.C}
		}
	case len(op) > 4 && op[:4] == "Load":
		r.guardCheck(st, p, false, pos)
		v := st.load(p)
		if res != nil {
			f.regs[res] = Val{T: res.Type(), C: v.C}
		}
	case len(op) > 5 && op[:5] == "Store":
		r.guardCheck(st, p, true, pos)
		r.storeChecked(st, p, Val{T: t, C: args[1].C}, pos)
	case strings.HasPrefix(op, "CompareAndSwap"):
		// swapped <=> *addr == old; *addr becomes ite(swapped, new, *addr) (sequentially consistent, one step)
		r.guardCheck(st, p, true, pos)
		v := st.load(p)
		sw := st.define("cas", Eq(v.C[0], args[1].C[0]))
		r.storeChecked(st, p, Val{T: t, C: []Term{Ite(sw, args[2].C[0], v.C[0])}}, pos)
		if res != nil {
			f.regs[res] = Val{T: res.Type(), C: []Term{sw}}
		}
	default:
		return false
	}
	return true
}

// resultCell returns the local cell holding result i of fn (functions with defers keep
// their results in locals so that deferred calls can observe them), or nil.
func resultCell(fn *ssa.Function, i int) *ssa.Alloc {
	for _, b := range fn.Blocks {
		if len(b.Instrs) == 0 {
			continue
		}
		ret, ok := b.Instrs[len(b.Instrs)-1].(*ssa.Return)
		if !ok || i >= len(ret.Results) {
			continue
		}
		if ld, ok := ret.Results[i].(*ssa.UnOp); ok {
			if al, ok := ld.X.(*ssa.Alloc); ok && !al.Heap {
				return al
			}
		}
	}
	return nil
}

// storeChecked performs a store and, when the target object declares wait conditions
// (`waitcond M [l] expr`), generates the monitor obligations that exclude lost wake-ups:
//   - a store made WITHOUT the mutex must not be able to turn the wait condition from true to false
//     (a waiter that has evaluated the condition but not yet parked would sleep forever);
//   - a store made WITH the mutex that falsifies it must be followed by Broadcast/Signal before Unlock.
func (r *Runner) storeChecked(st *State, p *Place, v Val, pos token.Pos) {
	ts := r.typeSpecOf(p.Root)
	if ts == nil || len(ts.WaitCond) == 0 || len(p.Path) == 0 || p.Kind == PCell || r.curSpec == nil {
		st.store(p, v)
		return
	}
	stt, ok := p.Root.Underlying().(*types.Struct)
	if !ok {
		st.store(p, v)
		return
	}
	owner := *p
	owner.Path = nil
	owner.HasArr = false
	self := Val{T: types.NewPointer(p.Root), C: []Term{r.interiorID(st, &owner)}, P: &owner}
	type wc struct {
		mu  string
		c   Clause
		old Term
	}
	var conds []wc
	for mu, cs := range ts.WaitCond {
		for _, c := range cs {
			env := r.newEnv(st, r.pkgByPath(ts.Pkg))
			env.vars["self"] = self
			conds = append(conds, wc{mu, c, env.EvalBool(c.E, st)})
		}
	}
	st.store(p, v)
	for _, w := range conds {
		env := r.newEnv(st, r.pkgByPath(ts.Pkg))
		env.vars["self"] = self
		now := env.EvalBool(w.c.E, st)
		if now.S == w.old.S {
			continue // the store does not touch what the condition reads
		}
		falsified := And(w.old, Not(now))
		mi := -1
		for i := 0; i < stt.NumFields(); i++ {
			if stt.Field(i).Name() == w.mu {
				mi = i
			}
		}
		if mi < 0 {
			continue
		}
		lk := owner.withField(mi)
		if mode, held := st.held[lockKey(lk)]; held && mode == "w" {
			k := "needsignal:" + lockKey(lk)
			if prev, ok := st.ghost[k]; ok {
				st.ghost[k] = Or(prev, falsified)
			} else {
				st.ghost[k] = falsified
			}
		} else {
			r.oblige(st, "lostwakeup", shortType(p.Root)+"."+w.c.Label, Not(falsified), pos)
		}
	}
}

// placeOfExpr evaluates a field-selection chain (a.b.c) to the memory place it designates.
// Pointer-valued links are dereferenced; struct-valued links extend the field path.
func (e *SEnv) placeOfExpr(x SExpr) *Place {
	n, ok := x.(*SSel)
	if !ok {
		v := e.eval(x)
		if v.T == nil {
			sfail("place of a spec value")
		}
		if _, isPtr := v.T.Underlying().(*types.Pointer); !isPtr {
			sfail("place: %v is not a pointer", v.T)
		}
		return e.r.placeOf(v)
	}
	// try: the prefix evaluates to a pointer value
	var base *Place
	var bt types.Type
	func() {
		defer func() {
			if r := recover(); r != nil {
				if _, ok := r.(specErr); !ok {
					panic(r)
				}
			}
		}()
		v := e.eval(n.X)
		if v.T != nil {
			if pt, isPtr := v.T.Underlying().(*types.Pointer); isPtr {
				base = e.r.placeOf(v)
				bt = pt.Elem()
			}
		}
	}()
	if base == nil {
		base = e.placeOfExpr(n.X)
		bt, _, _ = base.typeAt()
	}
	st, ok := bt.Underlying().(*types.Struct)
	if !ok {
		sfail("place: field %s of non-struct %v", n.Name, bt)
	}
	for i := 0; i < st.NumFields(); i++ {
		if st.Field(i).Name() == n.Name {
			return base.withField(i)
		}
	}
	sfail("place: no field %s in %v", n.Name, bt)
	return nil
}

// pureIfaceMethod: declared by `pureiface IFACE prefix...` in a contract file.
func (r *Runner) pureIfaceMethod(iface, method string) bool {
	for _, p := range r.specs.PureIface[iface] {
		if len(method) >= len(p) && method[:len(p)] == p {
			return true
		}
	}
	return false
}

// ifaceVersion: a ghost version per object (array indexed by the interface payload, one array per
// interface type). A method that is not declared read-only bumps the version of ITS RECEIVER only
// (assumption: a mutating interface method does not change what read-only methods of other
// objects return); results of read-only methods are functions of (version, receiver, arguments).
func ifaceVersionArr(st *State, iface string) Term {
	k := "ifver:" + iface
	if t, ok := st.ghost[k]; ok {
		return t
	}
	t := Sym("ifver_"+sanitize(iface)+"@entry", SArr)
	st.ghost[k] = t
	return t
}

func (r *Runner) ifaceVersion(st *State, iface string, recv Val) Term {
	pay := recv.C[0]
	if len(recv.C) > 1 {
		pay = recv.C[1]
	}
	return Select(ifaceVersionArr(st, iface), pay)
}

func (r *Runner) bumpIfaceVersion(st *State, iface string, recv Val) {
	pay := recv.C[0]
	if len(recv.C) > 1 {
		pay = recv.C[1]
	}
	st.ghost["ifver:"+iface] = st.define("ifver", Store(ifaceVersionArr(st, iface), pay, Fresh("ver", SInt)))
}

func contentArgs(st *State, vs []Val) []Term {
	var as []Term
	for _, a := range vs {
		switch {
		case a.T != nil && isSlice(a.T) && len(layout(elemOf(a.T))) == 1:
			as = append(as, st.backingArr(a, elemOf(a.T), 0), a.C[1], a.C[2])
		default:
			as = append(as, a.C...)
		}
	}
	return as
}

// pureIfaceCall: a read-only interface method. Its result is an uninterpreted function of the
// object's version, the receiver and the arguments (so repeated reads agree), nothing is modified.
func (r *Runner) pureIfaceCall(st *State, f *Frame, iface, method string, recv Val, args []Val, res ssa.Value) {
	if res == nil {
		return
	}
	out := r.pureIfaceResult(st, iface, method, recv, args, res.Type())
	st.assumeRange(out)
	st.assumeLoadedRefs(out)
	f.regs[res] = out
}

func (r *Runner) pureIfaceResult(st *State, iface, method string, recv Val, args []Val, rt types.Type) Val {
	as := append([]Term{r.ifaceVersion(st, iface, recv)}, recv.C...)
	as = append(as, contentArgs(st, args)...)
	ls := layout(rt)
	out := Val{T: rt, C: make([]Term, len(ls))}
	for k, l := range ls {
		out.C[k] = uf(fmt.Sprintf("im_%s_%d", sanitize(method), k), l.Sort, as...)
	}
	return out
}

// ---------- ghost file model ----------
// One abstract file per *os.File object: content (bytes), len, pos, synced (durable prefix length).

func fileHeap(st *State, comp string) Term {
	if comp == "content" {
		return st.rawHeapGet("F|content", "File_content", ArrOf(SArr))
	}
	return st.rawHeapGet("F|"+comp, "File_"+comp, SArr)
}

// fileRef: the identity of a file value (*os.File, or an interface such as io.Reader holding one).
func fileRef(f Val) Term {
	if f.T != nil && isIface(f.T) && len(f.C) == 2 {
		return f.C[1]
	}
	return f.C[0]
}

package main

// Arithmetic, comparisons, conversions.

import (
	"fmt"
	"go/token"
	"go/types"
	"math"
	"math/big"

	"golang.org/x/tools/go/ssa"
)

type bigInt = big.Int

var bigOne = big.NewInt(1)

func floatConst(f float64) Term {
	bits := math.Float64bits(f)
	name := fmt.Sprintf("fconst_%016x", bits)
	return Sym(name, SInt)
}

func uf(name string, res Sort, args ...Term) Term {
	ss := make([]Sort, len(args))
	for i, a := range args {
		ss[i] = a.Sort
	}
	// the arity is part of the SMT name: a spec function may be applied to values of different shapes
	return App(Func(fmt.Sprintf("%s@%d", name, len(args)), ss, res), res, args...)
}

func isPow2Minus1(n *big.Int) (uint, bool) {
	if n.Sign() <= 0 {
		return 0, false
	}
	m := new(big.Int).Add(n, bigOne)
	if m.BitLen()-1 >= 0 && new(big.Int).Lsh(bigOne, uint(m.BitLen()-1)).Cmp(m) == 0 {
		return uint(m.BitLen() - 1), true
	}
	return 0, false
}

func (r *Runner) strEq(st *State, a, b Val) Term {
	la, lb := a.C[2], b.C[2]
	if n, ok := litVal(la); ok && n.Sign() == 0 {
		return Eq(lb, Zero)
	}
	if n, ok := litVal(lb); ok && n.Sign() == 0 {
		return Eq(la, Zero)
	}
	if a.C[0].S == b.C[0].S && a.C[1].S == b.C[1].S {
		return Eq(la, lb)
	}
	for _, pr := range [][2]Val{{a, b}, {b, a}} {
		if n, ok := litVal(pr[0].C[2]); ok && n.IsInt64() && n.Int64() <= 16 {
			cs := []Term{Eq(pr[1].C[2], pr[0].C[2])}
			for i := int64(0); i < n.Int64(); i++ {
				cs = append(cs, Eq(Select(pr[0].C[0], Add(pr[0].C[1], IntLit(i))), Select(pr[1].C[0], Add(pr[1].C[1], IntLit(i)))))
			}
			return And(cs...)
		}
	}
	j := BoundVar("j")
	return And(Eq(la, lb), Forall([]Term{j}, Implies(And(Le(Zero, j), Lt(j, la)),
		Eq(Select(a.C[0], Add(a.C[1], j)), Select(b.C[0], Add(b.C[1], j))))))
}

// valEq builds the Go == relation on two values of the same type.
func (r *Runner) valEq(st *State, a, b Val) Term {
	t := a.T
	if t == nil {
		t = b.T
	}
	if t == nil {
		return Eq(a.C[0], b.C[0])
	}
	switch u := t.Underlying().(type) {
	case *types.Basic:
		if u.Info()&types.IsString != 0 {
			return r.strEq(st, a, b)
		}
		if u.Info()&types.IsFloat != 0 {
			return uf("feq", SBool, a.C[0], b.C[0])
		}
		return Eq(a.C[0], b.C[0])
	case *types.Struct:
		var cs []Term
		for i := 0; i < u.NumFields(); i++ {
			lo, hi := fieldRange(t, i)
			ft := u.Field(i).Type()
			cs = append(cs, r.valEq(st, sub(a, ft, lo, hi), sub(b, ft, lo, hi)))
		}
		return And(cs...)
	case *types.Array:
		var cs []Term
		if u.Len() <= 32 {
			for i := int64(0); i < u.Len(); i++ {
				for k := range a.C {
					cs = append(cs, Eq(Select(a.C[k], IntLit(i)), Select(b.C[k], IntLit(i))))
				}
			}
			return And(cs...)
		}
		j := BoundVar("j")
		for k := range a.C {
			cs = append(cs, Forall([]Term{j}, Implies(And(Le(Zero, j), Lt(j, IntLit(u.Len()))), Eq(Select(a.C[k], j), Select(b.C[k], j)))))
		}
		return And(cs...)
	}
	var cs []Term
	n := len(a.C)
	if len(b.C) < n {
		n = len(b.C)
	}
	for i := 0; i < n; i++ {
		cs = append(cs, Eq(a.C[i], b.C[i]))
	}
	return And(cs...)
}

func goDiv(a, b Term, signed bool) Term {
	if !signed {
		return Div(a, b)
	}
	if x, ok := litVal(a); ok {
		if y, ok2 := litVal(b); ok2 && y.Sign() != 0 {
			return BigLit(new(big.Int).Quo(x, y))
		}
	}
	if y, ok := litVal(b); ok && y.Sign() > 0 {
		return Ite(Ge(a, Zero), Div(a, b), Neg(Div(Neg(a), b)))
	}
	return Ite(Gt(b, Zero),
		Ite(Ge(a, Zero), Div(a, b), Neg(Div(Neg(a), b))),
		Ite(Ge(a, Zero), Neg(Div(a, Neg(b))), Div(Neg(a), Neg(b))))
}

func (r *Runner) binop(st *State, op token.Token, a, b Val, rt types.Type, pos token.Pos, instr ssa.Instruction) Val {
	t := a.T
	if t == nil {
		t = b.T
	}
	mk := func(c Term) Val { return Val{T: rt, C: []Term{c}} }
	switch op {
	case token.EQL:
		return mk(r.valEq(st, a, b))
	case token.NEQ:
		return mk(Not(r.valEq(st, a, b)))
	}
	if isString(t) {
		switch op {
		case token.ADD:
			return r.strConcat(st, rt, a, b)
		case token.LSS, token.LEQ, token.GTR, token.GEQ:
			// lexicographic order: uninterpreted, consistent with equality
			lt := uf("strlt", SBool, a.C[0], a.C[1], a.C[2], b.C[0], b.C[1], b.C[2])
			gt := uf("strlt", SBool, b.C[0], b.C[1], b.C[2], a.C[0], a.C[1], a.C[2])
			eq := r.strEq(st, a, b)
			st.assume(Not(And(lt, gt)), Implies(eq, And(Not(lt), Not(gt))), Or(lt, gt, eq))
			switch op {
			case token.LSS:
				return mk(lt)
			case token.LEQ:
				return mk(Not(gt))
			case token.GTR:
				return mk(gt)
			default:
				return mk(Not(lt))
			}
		}
		panic(unsupported("string op " + op.String()))
	}
	if isFloat(t) {
		x, y := a.C[0], b.C[0]
		switch op {
		case token.ADD:
			return mk(uf("fadd", SInt, x, y))
		case token.SUB:
			return mk(uf("fsub", SInt, x, y))
		case token.MUL:
			return mk(uf("fmul", SInt, x, y))
		case token.QUO:
			return mk(uf("fdiv", SInt, x, y))
		case token.LSS:
			return mk(uf("flt", SBool, x, y))
		case token.LEQ:
			return mk(uf("fle", SBool, x, y))
		case token.GTR:
			return mk(uf("flt", SBool, y, x))
		case token.GEQ:
			return mk(uf("fle", SBool, y, x))
		}
		panic(unsupported("float op " + op.String()))
	}
	if isBool(t) {
		switch op {
		case token.AND, token.LAND:
			return mk(And(a.C[0], b.C[0]))
		case token.OR, token.LOR:
			return mk(Or(a.C[0], b.C[0]))
		}
		panic(unsupported("bool op " + op.String()))
	}
	bits, signed, ok := intInfo(t)
	if !ok {
		panic(unsupported(fmt.Sprintf("binop %s on %v", op, t)))
	}
	x, y := a.C[0], b.C[0]
	switch op {
	case token.LSS:
		return mk(Lt(x, y))
	case token.LEQ:
		return mk(Le(x, y))
	case token.GTR:
		return mk(Gt(x, y))
	case token.GEQ:
		return mk(Ge(x, y))
	case token.ADD:
		return mk(st.define("add", r.arith(st, Add(x, y), rt, pos)))
	case token.SUB:
		return mk(st.define("sub", r.arith(st, Sub(x, y), rt, pos)))
	case token.MUL:
		_, lx := litVal(x)
		_, ly := litVal(y)
		if lx || ly {
			if r.curSpec != nil && r.curSpec.Overflow == "assumed" && bits == 64 {
				return mk(Mul(x, y))
			}
			return mk(st.define("mul", wrapInt(Mul(x, y), rt)))
		}
		r.note("var*var multiplication treated as mathematical (no wrap)")
		return mk(Mul(x, y))
	case token.QUO:
		r.panicCheck(st, "div", "divide by zero", Ne(y, Zero), pos)
		return mk(st.define("quo", goDiv(x, y, signed)))
	case token.REM:
		r.panicCheck(st, "div", "divide by zero", Ne(y, Zero), pos)
		if !signed {
			return mk(st.define("rem", Mod(x, y)))
		}
		return mk(st.define("rem", Sub(x, Mul(y, goDiv(x, y, signed)))))
	case token.SHL:
		if k, isL := litVal(y); isL && k.IsInt64() && k.Int64() < 64 {
			return mk(st.define("shl", wrapInt(Mul(x, BigLit(pow2(uint(k.Int64())))), rt)))
		}
		v := Fresh("shl", SInt)
		out := mk(v)
		st.assumeRange(out)
		r.note("variable shift abstracted")
		return out
	case token.SHR:
		if k, isL := litVal(y); isL && k.IsInt64() {
			if k.Int64() >= 64 {
				return mk(Ite(Lt(x, Zero), IntLit(-1), Zero))
			}
			return mk(st.define("shr", Div(x, BigLit(pow2(uint(k.Int64()))))))
		}
		v := Fresh("shr", SInt)
		out := mk(v)
		st.assumeRange(out)
		r.note("variable shift abstracted")
		return out
	case token.AND:
		for _, pr := range [][2]Term{{x, y}, {y, x}} {
			if m, isL := litVal(pr[1]); isL {
				if k, p2 := isPow2Minus1(m); p2 && !signed {
					return mk(Mod(pr[0], BigLit(pow2(k))))
				}
				if m.Sign() == 0 {
					return mk(Zero)
				}
			}
		}
		v := uf("band", SInt, x, y)
		out := mk(st.define("and", v))
		st.assumeRange(out)
		if !signed {
			st.assume(Le(out.C[0], x), Le(out.C[0], y))
		}
		return out
	case token.OR, token.XOR, token.AND_NOT:
		if op == token.OR {
			if m, isL := litVal(y); isL && m.Sign() == 0 {
				return mk(x)
			}
			if m, isL := litVal(x); isL && m.Sign() == 0 {
				return mk(y)
			}
		}
		name := map[token.Token]string{token.OR: "bor", token.XOR: "bxor", token.AND_NOT: "bandnot"}[op]
		out := mk(st.define(name, uf(name, SInt, x, y)))
		st.assumeRange(out)
		if !signed && op == token.OR {
			st.assume(Ge(out.C[0], x), Ge(out.C[0], y), Le(out.C[0], Add(x, y)))
		}
		return out
	}
	panic(unsupported("binop " + op.String()))
}

// arith wraps the mathematical result of an add/sub into the result type.
func (r *Runner) arith(st *State, m Term, rt types.Type, pos token.Pos) Term {
	bits, _, ok := intInfo(rt)
	if !ok {
		return m
	}
	if bits == 64 && r.curSpec != nil && r.curSpec.Overflow == "assumed" {
		return m
	}
	return wrapNear(m, rt)
}

func (r *Runner) strConcat(st *State, rt types.Type, a, b Val) Val {
	if n, ok := litVal(a.C[2]); ok && n.Sign() == 0 {
		b.T = rt
		return b
	}
	if n, ok := litVal(b.C[2]); ok && n.Sign() == 0 {
		a.T = rt
		return a
	}
	arr := Fresh("cat", SArr)
	j := BoundVar("j")
	st.assume(Forall([]Term{j}, And(
		Implies(And(Le(Zero, j), Lt(j, a.C[2])), Eq(Select(arr, j), Select(a.C[0], Add(a.C[1], j)))),
		Implies(And(Le(a.C[2], j), Lt(j, Add(a.C[2], b.C[2]))), Eq(Select(arr, j), Select(b.C[0], Add(b.C[1], Sub(j, a.C[2]))))))))
	return Val{T: rt, C: []Term{arr, Zero, Add(a.C[2], b.C[2])}}
}

func (r *Runner) convert(st *State, v Val, dst types.Type, pos token.Pos, instr ssa.Instruction) Val {
	src := v.T
	_, _, sInt := intInfo(src)
	_, _, dInt := intInfo(dst)
	switch {
	case sInt && dInt:
		slo, shi, _ := intBounds(src)
		dlo, dhi, _ := intBounds(dst)
		if dlo.Cmp(slo) <= 0 && dhi.Cmp(shi) >= 0 {
			return Val{T: dst, C: v.C}
		}
		if r.curSpec != nil && r.curSpec.Lossless && len(st.frames) == 1 {
			label := shortType(dst) + "(_)"
			if cv, ok := instr.(*ssa.Convert); ok {
				label = exprText(st.top().fn, cv)
			}
			r.oblige(st, "lossless", label, And(Le(BigLit(dlo), v.C[0]), Le(v.C[0], BigLit(dhi))), pos)
		}
		return Val{T: dst, C: []Term{st.define("conv", wrapInt(v.C[0], dst))}}
	case sInt && isFloat(dst):
		return Val{T: dst, C: []Term{uf("i2f", SInt, v.C[0])}}
	case isFloat(src) && dInt:
		out := Val{T: dst, C: []Term{uf("f2i_"+shortType(dst), SInt, v.C[0])}}
		st.assumeRange(out)
		return out
	case isFloat(src) && isFloat(dst):
		return Val{T: dst, C: v.C}
	case isString(dst) && isSlice(src):
		et := elemOf(src)
		if b, ok := et.Underlying().(*types.Basic); ok && b.Kind() == types.Uint8 {
			arr := st.define("sarr", st.backingArr(v, et, 0))
			return Val{T: dst, C: []Term{arr, v.C[1], v.C[2]}}
		}
		out := freshVal("runes2str", dst)
		st.assumeRange(out)
		return out
	case isSlice(dst) && isString(src):
		et := elemOf(dst)
		if b, ok := et.Underlying().(*types.Basic); ok && b.Kind() == types.Uint8 {
			ref := st.allocRef("bytes")
			st.assume(Eq(Select(st.heapGet("M", et, layout(et)[0]), ref), v.C[0]))
			cp := Fresh("cap", SInt)
			st.assume(Le(Add(v.C[1], v.C[2]), Add(v.C[1], cp)), Le(v.C[2], cp), Le(cp, maxLen))
			st.nonnil[ref.S] = true
			return Val{T: dst, C: []Term{ref, v.C[1], v.C[2], cp}}
		}
		out := freshVal("str2runes", dst)
		st.assumeRange(out)
		return out
	case isString(dst) && sInt:
		out := freshVal("rune2str", dst)
		st.assumeRange(out)
		return out
	case isString(dst) && isString(src):
		return Val{T: dst, C: v.C}
	case isPtrLike(dst) && isPtrLike(src):
		return Val{T: dst, C: v.C, P: v.P, Clo: v.Clo}
	}
	if types.Identical(src.Underlying(), dst.Underlying()) {
		out := v
		out.T = dst
		return out
	}
	panic(unsupported(fmt.Sprintf("convert %v -> %v", src, dst)))
}

package main

// Symbolic state: path condition, component heaps, local cells, ghost state.

import (
	"fmt"
	"go/types"
	"strings"

	"golang.org/x/tools/go/ssa"
)

type PlaceKind int

const (
	PCell PlaceKind = iota // local variable (Go-side cell)
	PObj                   // heap object: H[key][base]
	PElem                  // element of a backing array: M[key][base][idx]
	PArr                   // a whole backing array (pointer to [N]T allocated on the heap): M[key][base]
)

type cellKey struct {
	frame int
	alloc *ssa.Alloc
}

type Place struct {
	Kind   PlaceKind
	Cell   cellKey
	Base   Term // PObj: object ref; PElem: backing array ref
	Idx    Term // PElem: absolute index
	Root   types.Type
	Path   []int // field path from Root
	HasArr bool  // path ends in an array-typed field that is indexed by AIdx
	AIdx   Term
	ArrLen int64 // PArr: number of elements (Root is the element type)
}

func (p *Place) withField(i int) *Place {
	q := *p
	q.Path = append(append([]int{}, p.Path...), i)
	return &q
}
func (p *Place) withIndex(i Term) *Place {
	if p.Kind == PArr {
		return &Place{Kind: PElem, Base: p.Base, Idx: i, Root: p.Root}
	}
	q := *p
	if q.HasArr {
		panic(unsupported("nested array indexing"))
	}
	q.HasArr = true
	q.AIdx = i
	return &q
}

// typeAt returns the Go type stored at the place and the [lo,hi) leaf range within layout(Root).
func (p *Place) typeAt() (types.Type, int, int) {
	if p.Kind == PArr {
		return types.NewArray(p.Root, p.ArrLen), 0, len(layout(p.Root))
	}
	t := p.Root
	lo := 0
	hi := len(layout(t))
	for _, f := range p.Path {
		st, ok := t.Underlying().(*types.Struct)
		if !ok {
			panic(unsupported("field path through non-struct " + t.String()))
		}
		a, b := fieldRange(t, f)
		lo, hi = lo+a, lo+b
		t = st.Field(f).Type()
	}
	if p.HasArr {
		at, ok := t.Underlying().(*types.Array)
		if !ok {
			panic(unsupported("array index on non-array " + t.String()))
		}
		t = at.Elem()
	}
	return t, lo, hi
}

func (p *Place) String() string {
	switch p.Kind {
	case PCell:
		return fmt.Sprintf("cell(%d,%s)%v", p.Cell.frame, p.Cell.alloc.Name(), p.Path)
	case PObj:
		return fmt.Sprintf("obj(%s:%s)%v", p.Base.S, shortType(p.Root), p.Path)
	}
	return fmt.Sprintf("elem(%s[%s]:%s)%v", p.Base.S, p.Idx.S, shortType(p.Root), p.Path)
}

type unsupportedErr struct{ msg string }

func (u unsupportedErr) Error() string { return "unsupported: " + u.msg }
func unsupported(msg string) error     { return unsupportedErr{msg} }

type deferred struct {
	call *ssa.CallCommon
	args []Val
	fn   Val
	instr ssa.Instruction
}

type Frame struct {
	id      int
	fn      *ssa.Function
	blk     *ssa.BasicBlock
	prev    *ssa.BasicBlock
	ip      int
	regs    map[ssa.Value]Val
	defers  []deferred
	loops   map[int]*loopRun // header block index -> active loop
	spec    *FuncSpec
	callIn  ssa.Instruction // call instruction in the caller (nil for top)
	depth   int
	running bool // running deferred calls after a return/panic
	retVals []Val
	panicking bool
	// for contract checking of the top frame
	entry *entrySnap
	params []Val
	entryHeld map[string]string
	fvEntry   map[string]Val // closures under contract: entry values of the captured variables, by name
	iters  map[ssa.Value]string
}

type loopRun struct {
	headShadow *State // the state at the head of the iteration (after the invariants were assumed), for iteration clauses
	heapAtHead map[string]Term
	decr0      Term
	hasDecr    bool
}

type entrySnap struct {
	heap  map[string]Term
	W     Term
	ghost map[string]Term
}

type State struct {
	hoist  []Term // definitions of path-condition names introduced at merges (asserted unconditionally; see mergeInto)
	pc     []Term
	heap   map[string]Term
	cells  map[cellKey]Val
	W      Term
	frames []*Frame
	held   map[string]string // lock key -> "w" | "r"
	ghost  map[string]Term
	trail  []string // branch decisions (for diagnostics)
	dead   bool
	steps  int
	defs   map[string]Term // term text -> defined name (canonical names for repeated terms)
	nonnil map[string]bool
	boxes  map[string]Val // interface payload symbol -> boxed value
	noDef  bool           // spec evaluation under binders: never introduce definitions
	side   *[]Term        // when non-nil, typing facts are collected here instead of the pc
	epoch  int            // bumped by a deep havoc: untouched heap components get new initial symbols
	isShadow bool
	writes map[string][]string // heap key -> bases written (only while summarising a loop)
	allocLog map[string]bool   // references allocated (only while summarising a loop)
	heldPlace map[string]*Place
	lockSnap  map[string]*State // lock key -> state snapshot right after its acquisition
	W0        Term               // watermark at function entry
	leakAll   bool                // a function literal was stored to memory
	leaked    map[*ssa.Alloc]bool // captured variables whose closure was handed to code not executed here
	lastCall  map[string]callRec // contracted callee (short name) -> arguments/results of its most recent call
}

func (st *State) top() *Frame { return st.frames[len(st.frames)-1] }

func (st *State) clone() *State {
	n := &State{W: st.W, W0: st.W0, steps: st.steps, epoch: st.epoch, leakAll: st.leakAll}
	if st.writes != nil {
		n.writes = make(map[string][]string, len(st.writes))
		for k, v := range st.writes {
			n.writes[k] = append([]string{}, v...)
		}
		n.allocLog = make(map[string]bool, len(st.allocLog))
		for k, v := range st.allocLog {
			n.allocLog[k] = v
		}
	}
	n.pc = append(make([]Term, 0, len(st.pc)+16), st.pc...)
	n.hoist = append([]Term{}, st.hoist...)
	n.heap = make(map[string]Term, len(st.heap))
	for k, v := range st.heap {
		n.heap[k] = v
	}
	n.cells = make(map[cellKey]Val, len(st.cells))
	for k, v := range st.cells {
		n.cells[k] = v
	}
	n.held = make(map[string]string, len(st.held))
	for k, v := range st.held {
		n.held[k] = v
	}
	n.ghost = make(map[string]Term, len(st.ghost))
	for k, v := range st.ghost {
		n.ghost[k] = v
	}
	n.trail = append([]string{}, st.trail...)
	if st.leaked != nil {
		n.leaked = make(map[*ssa.Alloc]bool, len(st.leaked))
		for k, v := range st.leaked {
			n.leaked[k] = v
		}
	}
	if st.lastCall != nil {
		n.lastCall = make(map[string]callRec, len(st.lastCall))
		for k, v := range st.lastCall {
			n.lastCall[k] = v
		}
	}
	if st.lockSnap != nil {
		n.lockSnap = make(map[string]*State, len(st.lockSnap))
		for k, v := range st.lockSnap {
			n.lockSnap[k] = v
		}
	}
	n.heldPlace = make(map[string]*Place, len(st.heldPlace))
	for k, v := range st.heldPlace {
		n.heldPlace[k] = v
	}
	n.defs = make(map[string]Term, len(st.defs))
	for k, v := range st.defs {
		n.defs[k] = v
	}
	n.nonnil = make(map[string]bool, len(st.nonnil))
	for k, v := range st.nonnil {
		n.nonnil[k] = v
	}
	n.boxes = make(map[string]Val, len(st.boxes))
	for k, v := range st.boxes {
		n.boxes[k] = v
	}
	n.frames = make([]*Frame, len(st.frames))
	for i, f := range st.frames {
		g := *f
		g.regs = make(map[ssa.Value]Val, len(f.regs))
		for k, v := range f.regs {
			g.regs[k] = v
		}
		g.defers = append([]deferred{}, f.defers...)
		g.loops = make(map[int]*loopRun, len(f.loops))
		for k, v := range f.loops {
			g.loops[k] = v
		}
		n.frames[i] = &g
	}
	return n
}

func (st *State) assume(ts ...Term) {
	for _, t := range ts {
		if t.S == "true" || t.S == "" {
			continue
		}
		if st.side != nil {
			*st.side = append(*st.side, t)
			continue
		}
		st.pc = append(st.pc, t)
	}
}

func (st *State) assumeRange(v Val) { st.assume(rangeFacts(v)...) }

// define introduces a name for a (possibly large) term.
func (st *State) define(hint string, t Term) Term {
	if len(t.S) < 48 || st.noDef {
		return t
	}
	if d, ok := st.defs[t.S]; ok {
		return d
	}
	s := Fresh(hint, t.Sort)
	st.pc = append(st.pc, Eq(s, t))
	st.defs[t.S] = s
	return s
}

func heapKey(kind string, root types.Type, leaf Leaf) string {
	return kind + "|" + typeKey(root) + "|" + leaf.Name
}

func heapSort(kind string, leaf Leaf) Sort {
	if kind == "M" {
		return ArrOf(ArrOf(leaf.Sort))
	}
	return ArrOf(leaf.Sort)
}

type rawInfo struct {
	sym  string
	sort Sort
}

var rawHeapInfo = map[string]rawInfo{}

// rawHeapGet returns the current term of heap component key (declaring its initial symbol on first use).
func (st *State) rawHeapGet(key, sym string, sort Sort) Term {
	if t, ok := st.heap[key]; ok {
		return t
	}
	symMu.Lock()
	if _, ok := rawHeapInfo[key]; !ok {
		rawHeapInfo[key] = rawInfo{sym, sort}
	}
	symMu.Unlock()
	t := Sym(fmt.Sprintf("%s@%d", sym, st.epoch), sort)
	st.heap[key] = t
	return t
}

func (st *State) rawHeapSet(key, sym string, sort Sort, t Term) {
	st.rawHeapGet(key, sym, sort)
	st.heap[key] = st.define(sym, t)
}

func (st *State) heapGet(kind string, root types.Type, leaf Leaf) Term {
	return st.rawHeapGet(heapKey(kind, root, leaf), sanitize(kind+"_"+shortType(root)+"_"+leaf.Name), heapSort(kind, leaf))
}

func (st *State) heapSet(kind string, root types.Type, leaf Leaf, t Term) {
	st.rawHeapSet(heapKey(kind, root, leaf), sanitize(kind+"_"+shortType(root)+"_"+leaf.Name), heapSort(kind, leaf), t)
}

// logWrite records that heap component key was written at base (used by loop summaries).
func (st *State) logWrite(key string, base Term) {
	if st.writes == nil {
		return
	}
	st.writes[key] = append(st.writes[key], base.S)
}

// load reads the value at place p.
func (st *State) load(p *Place) Val {
	t, lo, hi := p.typeAt()
	root := layout(p.Root)
	out := Val{T: t, C: make([]Term, hi-lo)}
	for k := lo; k < hi; k++ {
		var c Term
		switch p.Kind {
		case PCell:
			cv, ok := st.cells[p.Cell]
			if !ok {
				panic(fmt.Sprintf("load of unset cell %v", p))
			}
			c = cv.C[k]
		case PObj:
			c = Select(st.heapGet("H", p.Root, root[k]), p.Base)
		case PElem:
			c = Select(Select(st.heapGet("M", p.Root, root[k]), p.Base), p.Idx)
		case PArr:
			c = Select(st.heapGet("M", p.Root, root[k]), p.Base)
		}
		if p.HasArr {
			c = Select(c, p.AIdx)
		}
		out.C[k-lo] = c
	}
	if p.Kind == PCell && len(p.Path) == 0 && !p.HasArr {
		cv := st.cells[p.Cell]
		out.P, out.Bk, out.Clo, out.Lk = cv.P, cv.Bk, cv.Clo, cv.Lk
	}
	if p.Kind != PCell || p.HasArr {
		// name loaded scalars and assume their type ranges
		for i := range out.C {
			if out.C[i].Sort == SInt || out.C[i].Sort == SBool {
				out.C[i] = st.define("ld", out.C[i])
			}
		}
		st.assumeRange(out)
		st.assumeLoadedRefs(out)
		// a reference read from a heap component that has not changed since function entry
		// existed at entry: it is below the entry watermark (hence distinct from later allocations)
		if st.epoch == 0 && !st.W0.IsZero() && p.Kind == PObj && !p.HasArr {
			ls := layout(t)
			for k := lo; k < hi; k++ {
				role := ls[k-lo].Role
				if role != "ptr" && role != "sl.ref" {
					continue
				}
				cur, ok := st.heap[heapKey("H", p.Root, root[k])]
				if ok && strings.HasSuffix(cur.S, "@0") {
					// only for objects that themselves existed at entry (later allocations are revealed, not stored)
					st.assume(Implies(Le(p.Base, st.W0), Le(out.C[k-lo], st.W0)))
				}
			}
		}
	}
	return out
}

// assumeLoadedRefs: any reference read from memory is at most the current watermark.
func (st *State) assumeLoadedRefs(v Val) {
	if v.T == nil {
		return
	}
	for i, l := range layout(v.T) {
		switch l.Role {
		case "ptr", "sl.ref":
			st.assume(Le(v.C[i], st.W))
		}
	}
}

func (st *State) store(p *Place, v Val) {
	if v.Clo != nil && v.Clo.Fn != nil && p.Kind != PCell {
		if st.leaked == nil {
			st.leaked = map[*ssa.Alloc]bool{}
		}
		st.leakAll = true // a function literal was stored to memory: from here on nothing captured is private
	}
	_, lo, hi := p.typeAt()
	if hi-lo != len(v.C) {
		panic(fmt.Sprintf("store: component mismatch at %v: %d vs %d (%v)", p, hi-lo, len(v.C), v.T))
	}
	root := layout(p.Root)
	for k := lo; k < hi; k++ {
		nv := v.C[k-lo]
		switch p.Kind {
		case PCell:
			cv := st.cells[p.Cell]
			nc := append([]Term{}, cv.C...)
			if p.HasArr {
				nc[k] = st.define("arr", Store(cv.C[k], p.AIdx, nv))
			} else {
				nc[k] = nv
			}
			cv.C = nc
			if len(p.Path) == 0 && !p.HasArr {
				cv.P, cv.Bk, cv.Clo, cv.Lk = v.P, v.Bk, v.Clo, v.Lk
			}
			st.cells[p.Cell] = cv
		case PObj:
			h := st.heapGet("H", p.Root, root[k])
			if p.HasArr {
				nv = Store(Select(h, p.Base), p.AIdx, nv)
			}
			st.heapSet("H", p.Root, root[k], Store(h, p.Base, nv))
			st.logWrite(heapKey("H", p.Root, root[k]), p.Base)
		case PElem:
			m := st.heapGet("M", p.Root, root[k])
			inner := Select(m, p.Base)
			if p.HasArr {
				nv = Store(Select(inner, p.Idx), p.AIdx, nv)
			}
			st.heapSet("M", p.Root, root[k], Store(m, p.Base, Store(inner, p.Idx, nv)))
			st.logWrite(heapKey("M", p.Root, root[k]), p.Base)
		case PArr:
			m := st.heapGet("M", p.Root, root[k])
			st.heapSet("M", p.Root, root[k], Store(m, p.Base, nv))
			st.logWrite(heapKey("M", p.Root, root[k]), p.Base)
		}
	}
}

// alloc returns a fresh reference above the watermark.
func (st *State) allocRef(hint string) Term {
	r := Fresh(hint, SInt)
	st.pc = append(st.pc, Gt(r, st.W))
	st.W = r
	if st.allocLog != nil {
		st.allocLog[r.S] = true
	}
	return r
}

// bumpW models allocation by unknown code.
func (st *State) bumpW() {
	w := Fresh("W", SInt)
	st.assume(Ge(w, st.W))
	st.W = w
}

// arrGet returns the (Array Int S) term backing a slice-like value for element leaf k.
// Arrays of elements of type et with leaf index k.
func (st *State) backingArr(sl Val, et types.Type, k int) Term {
	leaf := layout(et)[k]
	if sl.Bk != nil {
		b := *sl.Bk
		_, lo, _ := b.typeAtArr()
		root := layout(b.Root)
		switch b.Kind {
		case PCell:
			return st.cells[b.Cell].C[lo+k]
		case PObj:
			return Select(st.heapGet("H", b.Root, root[lo+k]), b.Base)
		case PElem:
			return Select(Select(st.heapGet("M", b.Root, root[lo+k]), b.Base), b.Idx)
		}
	}
	return Select(st.heapGet("M", et, leaf), sl.C[0])
}

func (st *State) setBackingArr(sl Val, et types.Type, k int, arr Term) {
	leaf := layout(et)[k]
	if sl.Bk != nil {
		b := *sl.Bk
		_, lo, _ := b.typeAtArr()
		root := layout(b.Root)
		switch b.Kind {
		case PCell:
			cv := st.cells[b.Cell]
			nc := append([]Term{}, cv.C...)
			nc[lo+k] = st.define("arr", arr)
			cv.C = nc
			st.cells[b.Cell] = cv
		case PObj:
			h := st.heapGet("H", b.Root, root[lo+k])
			st.heapSet("H", b.Root, root[lo+k], Store(h, b.Base, arr))
			st.logWrite(heapKey("H", b.Root, root[lo+k]), b.Base)
		case PElem:
			m := st.heapGet("M", b.Root, root[lo+k])
			st.heapSet("M", b.Root, root[lo+k], Store(m, b.Base, Store(Select(m, b.Base), b.Idx, arr)))
			st.logWrite(heapKey("M", b.Root, root[lo+k]), b.Base)
		}
		return
	}
	m := st.heapGet("M", et, leaf)
	st.heapSet("M", et, leaf, Store(m, sl.C[0], arr))
	st.logWrite(heapKey("M", et, leaf), sl.C[0])
}

// typeAtArr: like typeAt but for a place that denotes a whole array-typed field (HasArr false).
func (p *Place) typeAtArr() (types.Type, int, int) {
	q := *p
	q.HasArr = false
	return q.typeAt()
}

func lockKey(p *Place) string {
	var b strings.Builder
	switch p.Kind {
	case PCell:
		fmt.Fprintf(&b, "cell:%d:%s", p.Cell.frame, p.Cell.alloc.Name())
	case PObj:
		fmt.Fprintf(&b, "obj:%s:%s", p.Base.S, typeKey(p.Root))
	case PElem:
		fmt.Fprintf(&b, "elem:%s:%s:%s", p.Base.S, p.Idx.S, typeKey(p.Root))
	case PArr:
		fmt.Fprintf(&b, "arr:%s:%s", p.Base.S, typeKey(p.Root))
	}
	for _, f := range p.Path {
		fmt.Fprintf(&b, ".%d", f)
	}
	return b.String()
}

// fullPC: the path condition of the state: the hoisted definitions followed by the assumptions.
func (st *State) fullPC() []Term {
	out := make([]Term, 0, len(st.hoist)+len(st.pc))
	out = append(out, st.hoist...)
	out = append(out, st.pc...)
	return out
}

package main

// Built-in models: sync primitives (ghost lock state), maps, channels, globals,
// a handful of standard-library functions.

import (
	"fmt"
	"go/token"
	"go/types"
	"strings"

	"golang.org/x/tools/go/ssa"
)

// ---------- globals ----------

var immutableCache = map[*ssa.Global]int{} // 0 unknown, 1 immutable error sentinel, 2 mutable

func (r *Runner) typeTagByName(name string) Term {
	symMu.Lock()
	defer symMu.Unlock()
	if n, ok := typeTags[name]; ok {
		return IntLit(n)
	}
	n := int64(len(typeTags) + 1)
	typeTags[name] = n
	return IntLit(n)
}

var errorType = types.Universe.Lookup("error").Type()

// immutableGlobal: package-level error sentinels (assigned only in init) are
// distinct non-nil constants.
func (r *Runner) immutableGlobal(st *State, g *ssa.Global) (Val, bool) {
	et := g.Type().Underlying().(*types.Pointer).Elem()
	if !types.Identical(et, errorType) {
		return Val{}, false
	}
	state := immutableCache[g]
	if state == 0 {
		state = 1
		if g.Pkg != nil {
			for _, m := range g.Pkg.Members {
				fn, ok := m.(*ssa.Function)
				if !ok || fn.Name() == "init" {
					continue
				}
				if storesGlobal(fn, g) {
					state = 2
				}
			}
		}
		immutableCache[g] = state
	}
	if state != 1 {
		return Val{}, false
	}
	id := r.globalPtr(g).C[0]
	return Val{T: et, C: []Term{r.typeTagByName("*errors.errorString"), id}}, true
}

func (r *Runner) globalReassigned(g *ssa.Global) bool {
	for _, m := range g.Pkg.Members {
		if fn, ok := m.(*ssa.Function); ok && fn.Name() != "init" && storesGlobal(fn, g) {
			return true
		}
	}
	return false
}

func storesGlobal(fn *ssa.Function, g *ssa.Global) bool {
	for _, b := range fn.Blocks {
		for _, in := range b.Instrs {
			if s, ok := in.(*ssa.Store); ok && s.Addr == g {
				return true
			}
		}
	}
	for _, an := range fn.AnonFuncs {
		if storesGlobal(an, g) {
			return true
		}
	}
	return false
}

// ---------- guarded fields / lock ghost state ----------

func (r *Runner) typeSpecOf(t types.Type) *TypeSpec {
	if n, ok := t.(*types.Named); ok && n.Obj() != nil && n.Obj().Pkg() != nil {
		ts := r.specs.Types[n.Obj().Pkg().Path()+"."+n.Obj().Name()]
		if ts != nil && r.curProp != "" && len(ts.GuardedOnly[r.curProp]) > 0 {
			// property-scoped guarded_by declarations are merged in while that property is verified
			key := n.Obj().Pkg().Path() + "." + n.Obj().Name() + "|" + r.curProp
			if r.scopedTypes == nil {
				r.scopedTypes = map[string]*TypeSpec{}
			}
			if m, ok := r.scopedTypes[key]; ok {
				return m
			}
			cp := *ts
			cp.Guarded = map[string]string{}
			for k, v := range ts.Guarded {
				cp.Guarded[k] = v
			}
			for k, v := range ts.GuardedOnly[r.curProp] {
				cp.Guarded[k] = v
			}
			r.scopedTypes[key] = &cp
			return &cp
		}
		return ts
	}
	return nil
}

// guardCheck: an access to a guarded_by field requires its lock.
func (r *Runner) guardCheck(st *State, p *Place, write bool, pos token.Pos) {
	if len(p.Path) == 0 || r.curSpec == nil {
		return
	}
	ts := r.typeSpecOf(p.Root)
	if ts == nil || len(ts.Guarded) == 0 {
		return
	}
	stt := p.Root.Underlying().(*types.Struct)
	fname := stt.Field(p.Path[0]).Name()
	mu, ok := ts.Guarded[fname]
	if !ok {
		return
	}
	// place of the mutex
	for i := 0; i < stt.NumFields(); i++ {
		if stt.Field(i).Name() == mu {
			q := *p
			q.Path = []int{i}
			q.HasArr = false
			mode, held := st.held[lockKey(&q)]
			kind := "read"
			if write {
				kind = "write"
			}
			if !held || (write && mode == "r") {
				// an object allocated by this very call (constructor pattern) is not shared yet
				goal := False
				if p.Kind == PObj && !st.W0.IsZero() {
					goal = Gt(p.Base, st.W0)
				}
				r.oblige(st, "lockset", fmt.Sprintf("%s %s.%s without %s", kind, shortType(p.Root), fname, mu), goal, pos)
			}
			return
		}
	}
}

// escapeCheck: storing an interior pointer into memory loses its structure.
func (r *Runner) escapeCheck(st *State, at *Place, v Val) {
	if v.P == nil || at.Kind == PCell {
		return
	}
	if v.P.Kind == PCell || len(v.P.Path) > 0 || v.P.HasArr || v.P.Kind == PElem {
		if _, isPtr := v.T.Underlying().(*types.Pointer); isPtr {
			panic(unsupported("interior or stack pointer stored to the heap"))
		}
	}
}

func (r *Runner) lockAcquire(st *State, p *Place, mode string, pos token.Pos) {
	key := lockKey(p)
	if _, held := st.held[key]; held {
		r.oblige(st, "deadlock", "re-acquire of held lock", False, pos)
	}
	st.held[key] = mode
	if st.heldPlace != nil {
		st.heldPlace[key] = p
	}
	// havoc the fields guarded by this mutex, then assume the lock invariant
	owner, mu := r.lockOwner(p)
	var ts *TypeSpec
	if owner != nil {
		ts = r.typeSpecOf(owner.Root)
	}
	if ts == nil {
		// no type contract for the owner: nothing is havocked; the acquisition is still the
		// reference point of critical-section postconditions
		r.applyRely(st)
		if st.lockSnap == nil {
			st.lockSnap = map[string]*State{}
		}
		st.lockSnap[key] = r.shadow(st)
		return
	}
	stt := owner.Root.Underlying().(*types.Struct)
	preHavoc := r.shadow(st)
	for i := 0; i < stt.NumFields(); i++ {
		if ts.Guarded[stt.Field(i).Name()] == mu {
			fp := owner.withField(i)
			nv := freshVal("g_"+stt.Field(i).Name(), stt.Field(i).Type())
			st.assumeRange(nv)
			st.assumeLoadedRefs(nv)
			st.store(fp, nv)
		}
	}
	r.yield(st)
	self := Val{T: types.NewPointer(owner.Root), C: []Term{r.interiorID(st, owner)}, P: owner}
	for _, c := range ts.LockInv[mu] {
		env := r.newEnv(st, r.pkgByPath(ts.Pkg))
		env.vars["self"] = self
		st.assume(env.EvalBool(c.E, st))
	}
	// two-state invariants: other threads' critical sections relate the state at our
	// previous release (or, the first time, any earlier state) to the state we now see
	if len(ts.Stable[mu]) > 0 && preHavoc != nil {
		for _, c := range ts.Stable[mu] {
			env := r.newEnv(st, r.pkgByPath(ts.Pkg))
			env.vars["self"] = self
			env.old = preHavoc
			st.assume(env.EvalBool(c.E, st))
		}
	}
	r.applyRely(st)
	if st.lockSnap == nil {
		st.lockSnap = map[string]*State{}
	}
	st.lockSnap[key] = r.shadow(st)
}

func (r *Runner) pkgByPath(path string) *ssa.Package {
	for _, p := range r.prog.AllPackages() {
		if p.Pkg.Path() == path {
			return p
		}
	}
	return nil
}

// lockOwner returns the place of the struct containing the mutex and the mutex field name.
func (r *Runner) lockOwner(p *Place) (*Place, string) {
	if len(p.Path) == 0 {
		return nil, ""
	}
	q := *p
	q.Path = append([]int{}, p.Path[:len(p.Path)-1]...)
	t, _, _ := q.typeAt()
	stt, ok := t.Underlying().(*types.Struct)
	if !ok {
		return nil, ""
	}
	if len(q.Path) > 0 {
		// nested owner: only top-level structs carry type specs for now
		return nil, ""
	}
	return &q, stt.Field(p.Path[len(p.Path)-1]).Name()
}

func (r *Runner) lockRelease(st *State, p *Place, pos token.Pos, reader bool) {
	key := lockKey(p)
	if _, held := st.held[key]; !held {
		r.oblige(st, "lockset", "unlock of a lock not held", False, pos)
		return
	}
	owner, mu := r.lockOwner(p)
	if owner != nil {
		if ts := r.typeSpecOf(owner.Root); ts != nil && st.held[key] == "w" {
			self := Val{T: types.NewPointer(owner.Root), C: []Term{r.interiorID(st, owner)}, P: owner}
			for _, c := range ts.LockInv[mu] {
				env := r.newEnv(st, r.pkgByPath(ts.Pkg))
				env.vars["self"] = self
				r.oblige(st, "lockinv", shortType(owner.Root)+"."+c.Label, env.EvalBool(c.E, st), pos)
			}
			if snap := st.lockSnap[key]; snap != nil {
				for _, c := range ts.Stable[mu] {
					env := r.newEnv(st, r.pkgByPath(ts.Pkg))
					env.vars["self"] = self
					env.old = snap
					r.oblige(st, "stable", shortType(owner.Root)+"."+c.Label, env.EvalBool(c.E, st), pos)
				}
			}
		}
	}
	// a critical section that made a wait condition false must have signalled before releasing
	if ns, ok := st.ghost["needsignal:"+key]; ok {
		r.oblige(st, "signal", "wait condition falsified without Broadcast/Signal before unlock", Not(ns), pos)
		delete(st.ghost, "needsignal:"+key)
	}
	// critical-section postconditions of the function under verification
	if r.curSpec != nil && len(r.curSpec.CSEnsures) > 0 && len(st.frames) > 0 {
		if st.lockSnap[key] == nil {
			panic(specErr{"critical-section postconditions declared but the lock was not acquired in this function"})
		}
		if snap := st.lockSnap[key]; snap != nil {
			top := st.frames[0]
			env := r.newEnv(st, top.fn.Pkg)
			env.frame = top
			for i, n := range r.curSpec.Formals {
				if n != "_" && i < len(top.params) {
					env.vars[n] = top.params[i]
				}
			}
			env.old = snap
			for i, n := range r.curSpec.Results {
				if a := resultCell(top.fn, i); a != nil && n != "_" {
					if cv, ok := st.cells[cellKey{top.id, a}]; ok {
						env.vars[n] = cv
					}
				}
			}
			for _, c := range r.curSpec.CSEnsures {
				// clauses labelled wait:* apply to the release inside cond.Wait, all others to ordinary releases
				if strings.HasPrefix(c.Label, "wait:") != r.inWait {
					continue
				}
				func() {
					// a clause may mention locals that are not in scope on an early-exit path: it is
					// skipped there (and must be evaluated on at least one path, checked after the run)
					defer func() {
						if e := recover(); e != nil {
							se, ok := e.(specErr)
							if !ok || !strings.Contains(se.msg, "unresolved identifier") {
								panic(e)
							}
						}
					}()
					g := env.EvalBool(c.E, st)
					if r.csEvaluated == nil {
						r.csEvaluated = map[string]bool{}
					}
					r.csEvaluated[c.Label] = true
					r.oblige(st, "cs", c.Label, g, pos)
				}()
			}
		}
	}
	delete(st.held, key)
}

func (r *Runner) lockBalance(st *State, f *Frame, env *SEnv, pos token.Pos) {
	sp := f.spec
	want := map[string]bool{}
	for k := range f.entryHeld {
		want[k] = true
	}
	penv := r.newEnv(env.old, f.fn.Pkg)
	penv.vars = env.vars
	for _, a := range sp.Acquires {
		want[lockKey(penv.lockPlace(a))] = true
	}
	for _, a := range sp.Releases {
		delete(want, lockKey(penv.lockPlace(a)))
	}
	ok := len(want) == len(st.held)
	for k := range want {
		if _, h := st.held[k]; !h {
			ok = false
		}
	}
	if !ok {
		r.oblige(st, "lockbalance", "locks held at exit differ from entry", False, pos)
	}
}

// yield: a scheduling point. Unprotected shared facts do not survive it; in this
// implementation shared state is exactly the guarded_by fields, which are havocked
// when their lock is (re)acquired, so nothing else is done here.
func (r *Runner) yield(st *State) {}

// ---------- channels ----------

func (r *Runner) chanClosed(st *State, ch Val) Term {
	k := "closed:" + ch.C[0].S
	if t, ok := st.ghost[k]; ok {
		return t
	}
	return Select(r.closedHeap(st), ch.C[0])
}

func (r *Runner) closedHeap(st *State) Term {
	return st.rawHeapGet("CH|closed", "ChanClosed", SArrB)
}

func (r *Runner) setChanClosed(st *State, ch Val) {
	k := "closed:" + ch.C[0].S
	if _, ok := st.ghost[k]; ok {
		st.ghost[k] = True
		return
	}
	h := r.closedHeap(st)
	st.rawHeapSet("CH|closed", "ChanClosed", SArrB, Store(h, ch.C[0], True))
	st.logWrite("CH|closed", ch.C[0])
}

func (r *Runner) execRecv(st *State, f *Frame, x *ssa.UnOp, ch Val) {
	r.yield(st)
	et := elemOf(ch.T)
	v := freshVal("recv", et)
	st.assumeRange(v)
	st.assumeLoadedRefs(v)
	if x.CommaOk {
		ok := Fresh("recvok", SBool)
		out := Val{T: x.Type(), C: append(append([]Term{}, v.C...), ok)}
		f.regs[x] = out
		return
	}
	f.regs[x] = v
}

func (r *Runner) execSend(st *State, f *Frame, x *ssa.Send) {
	ch := r.operand(st, x.Chan)
	r.panicCheck(st, "send", "send on closed channel: "+exprText(f.fn, x.Chan), Not(r.chanClosed(st, ch)), x.Pos())
	r.yield(st)
}

func (r *Runner) execSelect(st *State, f *Frame, x *ssa.Select) {
	// nondeterministic choice among the cases
	n := len(x.States)
	idx := Fresh("sel", SInt)
	lo := Zero
	if !x.Blocking {
		lo = IntLit(-1)
	}
	st.assume(Le(lo, idx), Lt(idx, IntLit(int64(n))))
	out := Val{T: x.Type(), C: []Term{idx, Fresh("recvok", SBool)}}
	// ghost select_chan: identity of the channel whose case was chosen (0 for the default case)
	chosen := Zero
	for i := len(x.States) - 1; i >= 0; i-- {
		ch := r.operand(st, x.States[i].Chan)
		chosen = Ite(Eq(idx, IntLit(int64(i))), ch.C[0], chosen)
	}
	st.ghost["spec:select_chan"] = st.define("selchan", chosen)
	for _, s := range x.States {
		if s.Dir == types.RecvOnly {
			v := freshVal("selrecv", elemOf(s.Chan.Type()))
			st.assumeRange(v)
			st.assumeLoadedRefs(v)
			out.C = append(out.C, v.C...)
		} else {
			ch := r.operand(st, s.Chan)
			r.panicCheck(st, "send", "send on closed channel: "+exprText(f.fn, s.Chan), Implies(Eq(idx, IntLit(0)), Not(r.chanClosed(st, ch))), x.Pos())
		}
	}
	r.yield(st)
	f.regs[x] = out
}

func (r *Runner) execGo(st *State, f *Frame, x *ssa.Go) {
	// ghost counter of goroutines started on this path (see the nogo clause, checked at return)
	if g, ok := st.ghost["go_count"]; ok {
		st.ghost["go_count"] = Add(g, One)
	} else {
		st.ghost["go_count"] = One
	}
	r.note("goroutine body not part of this function's verification: " + exprText(f.fn, x.Call.Value))
	r.yield(st)
}

// ---------- maps ----------

func mapKeyStr(t types.Type) string { return typeKey(t) }

func (r *Runner) mapKeyTerm(st *State, k Val) Term {
	if len(k.C) == 1 {
		if k.C[0].Sort == SBool {
			return Ite(k.C[0], One, Zero)
		}
		return k.C[0]
	}
	if k.T != nil && isString(k.T) {
		if n, ok := litVal(k.C[2]); ok && n.Sign() == 0 {
			return IntLit(-7)
		}
		return uf("strkey", SInt, k.C[0], k.C[1], k.C[2])
	}
	return uf(fmt.Sprintf("tupkey%d", len(k.C)), SInt, k.C...)
}

func (r *Runner) mapDom(st *State, m Val) Term {
	return st.rawHeapGet("MD|"+mapKeyStr(m.T), sanitize("MapDom_"+shortType(m.T)), ArrOf(SArrB))
}
func (r *Runner) mapCard(st *State, m Val) Term {
	return st.rawHeapGet("ML|"+mapKeyStr(m.T), sanitize("MapLen_"+shortType(m.T)), SArr)
}
func (r *Runner) mapValHeap(st *State, m Val, l Leaf) Term {
	return st.rawHeapGet("MV|"+mapKeyStr(m.T)+"|"+l.Name, sanitize("MapVal_"+shortType(m.T)+"_"+l.Name), ArrOf(ArrOf(l.Sort)))
}

func (r *Runner) mapKeys(m Val) []string {
	out := []string{"MD|" + mapKeyStr(m.T), "ML|" + mapKeyStr(m.T)}
	for _, l := range layout(elemOf(m.T)) {
		out = append(out, "MV|"+mapKeyStr(m.T)+"|"+l.Name)
	}
	return out
}

func (r *Runner) mapInit(st *State, m Val) {
	ref := m.C[0]
	st.assume(Eq(Select(r.mapDom(st, m), ref), constArr(SArrB)))
	st.assume(Eq(Select(r.mapCard(st, m), ref), Zero))
}

func (r *Runner) mapLen(st *State, m Val) Term {
	n := st.define("maplen", Select(r.mapCard(st, m), m.C[0]))
	st.assume(Le(Zero, n), Implies(Eq(m.C[0], Zero), Eq(n, Zero)))
	return n
}

func (r *Runner) mapLookup(st *State, m Val, k Val) (Term, Val) {
	key := r.mapKeyTerm(st, k)
	ok := And(Ne(m.C[0], Zero), Select(Select(r.mapDom(st, m), m.C[0]), key))
	ok = st.define("mapok", ok)
	vt := elemOf(m.T)
	ls := layout(vt)
	raw := Val{T: vt, C: make([]Term, len(ls))}
	for i, l := range ls {
		raw.C[i] = Select(Select(r.mapValHeap(st, m, l), m.C[0]), key)
	}
	st.assume(impliesAll(ok, rangeFacts(raw))...)
	z := zeroVal(vt)
	out := Val{T: vt, C: make([]Term, len(ls))}
	for i := range ls {
		out.C[i] = Ite(ok, raw.C[i], z.C[i])
	}
	for i, l := range ls {
		if l.Role == "ptr" || l.Role == "sl.ref" {
			st.assume(Le(out.C[i], st.W))
		}
	}
	return ok, out
}

func impliesAll(c Term, ts []Term) []Term {
	out := make([]Term, len(ts))
	for i, t := range ts {
		out[i] = Implies(c, t)
	}
	return out
}

func (r *Runner) mapStore(st *State, m Val, k, v Val) {
	key := r.mapKeyTerm(st, k)
	ref := m.C[0]
	dom := r.mapDom(st, m)
	inner := Select(dom, ref)
	was := st.define("had", Select(inner, key))
	card := r.mapCard(st, m)
	st.rawHeapSet("ML|"+mapKeyStr(m.T), sanitize("MapLen_"+shortType(m.T)), SArr, Store(card, ref, Add(Select(card, ref), Ite(was, Zero, One))))
	st.rawHeapSet("MD|"+mapKeyStr(m.T), sanitize("MapDom_"+shortType(m.T)), ArrOf(SArrB), Store(dom, ref, Store(inner, key, True)))
	vt := elemOf(m.T)
	for i, l := range layout(vt) {
		h := r.mapValHeap(st, m, l)
		st.rawHeapSet("MV|"+mapKeyStr(m.T)+"|"+l.Name, sanitize("MapVal_"+shortType(m.T)+"_"+l.Name), ArrOf(ArrOf(l.Sort)), Store(h, ref, Store(Select(h, ref), key, v.C[i])))
	}
	for _, k2 := range r.mapKeys(m) {
		st.logWrite(k2, ref)
	}
}

func (r *Runner) mapDelete(st *State, m Val, k Val) {
	key := r.mapKeyTerm(st, k)
	ref := m.C[0]
	dom := r.mapDom(st, m)
	inner := Select(dom, ref)
	was := st.define("had", And(Ne(ref, Zero), Select(inner, key)))
	card := r.mapCard(st, m)
	st.rawHeapSet("ML|"+mapKeyStr(m.T), sanitize("MapLen_"+shortType(m.T)), SArr, Store(card, ref, Sub(Select(card, ref), Ite(was, One, Zero))))
	st.rawHeapSet("MD|"+mapKeyStr(m.T), sanitize("MapDom_"+shortType(m.T)), ArrOf(SArrB), Store(dom, ref, Store(inner, key, False)))
	for _, k2 := range r.mapKeys(m) {
		st.logWrite(k2, ref)
	}
}

func (r *Runner) mapClear(st *State, m Val) {
	ref := m.C[0]
	st.rawHeapSet("ML|"+mapKeyStr(m.T), sanitize("MapLen_"+shortType(m.T)), SArr, Store(r.mapCard(st, m), ref, Zero))
	st.rawHeapSet("MD|"+mapKeyStr(m.T), sanitize("MapDom_"+shortType(m.T)), ArrOf(SArrB), Store(r.mapDom(st, m), ref, constArr(SArrB)))
	for _, k2 := range r.mapKeys(m) {
		st.logWrite(k2, ref)
	}
}

func (r *Runner) mapHavoc(st *State, m Val) {
	ref := m.C[0]
	n := Fresh("maplen", SInt)
	st.assume(Le(Zero, n))
	st.rawHeapSet("ML|"+mapKeyStr(m.T), sanitize("MapLen_"+shortType(m.T)), SArr, Store(r.mapCard(st, m), ref, n))
	st.rawHeapSet("MD|"+mapKeyStr(m.T), sanitize("MapDom_"+shortType(m.T)), ArrOf(SArrB), Store(r.mapDom(st, m), ref, Fresh("mapdom", SArrB)))
	vt := elemOf(m.T)
	for _, l := range layout(vt) {
		h := r.mapValHeap(st, m, l)
		st.rawHeapSet("MV|"+mapKeyStr(m.T)+"|"+l.Name, sanitize("MapVal_"+shortType(m.T)+"_"+l.Name), ArrOf(ArrOf(l.Sort)), Store(h, ref, Fresh("mapval", ArrOf(l.Sort))))
	}
	for _, k2 := range r.mapKeys(m) {
		st.logWrite(k2, ref)
	}
}

func (r *Runner) execLookup(st *State, f *Frame, x *ssa.Lookup) {
	m := r.operand(st, x.X)
	k := r.operand(st, x.Index)
	if isString(x.X.Type()) {
		idx := k.C[0]
		r.panicCheck(st, "idx", exprText(f.fn, x.X)+"["+exprText(f.fn, x.Index)+"]", And(Le(Zero, idx), Lt(idx, m.C[2])), x.Pos())
		b := st.define("sb", Select(m.C[0], Add(m.C[1], idx)))
		st.assume(Le(Zero, b), Le(b, IntLit(255)))
		f.regs[x] = Val{T: x.Type(), C: []Term{b}}
		return
	}
	ok, v := r.mapLookup(st, m, k)
	if x.CommaOk {
		out := Val{T: x.Type(), C: append(append([]Term{}, v.C...), ok)}
		out.Clo = &Closure{Bindings: []Val{v, {}}}
		f.regs[x] = out
		return
	}
	f.regs[x] = v
}

// map iteration: ghost visited set per iterator
func (r *Runner) execRange(st *State, f *Frame, x *ssa.Range) {
	v := r.operand(st, x.X)
	if isString(x.X.Type()) {
		panic(unsupported("range over string"))
	}
	id := fmt.Sprintf("iter:%d:%s", f.id, x.Name())
	st.ghost[id] = constArr(SArrB)
	f.regs[x] = Val{T: x.Type(), C: []Term{Zero}, Clo: &Closure{Bindings: []Val{v}}}
	f.iters = setIter(f.iters, x, id)
}

func setIter(m map[ssa.Value]string, k ssa.Value, v string) map[ssa.Value]string {
	n := make(map[ssa.Value]string, len(m)+1)
	for a, b := range m {
		n[a] = b
	}
	n[k] = v
	return n
}

func (r *Runner) execNext(st *State, f *Frame, x *ssa.Next) {
	if x.IsString {
		panic(unsupported("range over string"))
	}
	it := r.operand(st, x.Iter)
	m := it.Clo.Bindings[0]
	id := f.iters[x.Iter]
	visited := st.ghost[id]
	mt := m.T.Underlying().(*types.Map)
	ok := Fresh("more", SBool)
	k := freshVal("rk", mt.Key())
	st.assumeRange(k)
	st.assumeLoadedRefs(k)
	key := r.mapKeyTerm(st, k)
	dom := Select(r.mapDom(st, m), m.C[0])
	st.assume(Implies(ok, And(Ne(m.C[0], Zero), Select(dom, key), Not(Select(visited, key)))))
	kv := BoundVar("k")
	st.assume(Implies(Not(ok), Forall([]Term{kv}, Implies(Select(dom, kv), Select(visited, kv)))))
	_, v := r.mapLookup(st, m, k)
	st.ghost[id] = st.define("visited", Store(visited, key, True))
	st.ghost[id+":last"] = key
	// the tuple type of Next has an invalid (single-slot) component where the loop ignores key or value
	tt := x.Type().(*types.Tuple)
	out := Val{T: x.Type(), C: []Term{ok}}
	parts := []Val{{}, k, v}
	for i, pv := range []Val{k, v} {
		want := len(layout(tt.At(i + 1).Type()))
		if want == len(pv.C) {
			out.C = append(out.C, pv.C...)
		} else {
			for j := 0; j < want; j++ {
				out.C = append(out.C, Zero)
			}
			parts[i+1] = Val{}
		}
	}
	out.Clo = &Closure{Bindings: parts}
	f.regs[x] = out
}

// ---------- standard library models ----------

func (r *Runner) newError(st *State, t types.Type) Val {
	ref := st.allocRef("err")
	return Val{T: t, C: []Term{r.typeTagByName("*errors.errorString"), ref}}
}

// funcParamCall: calling a func-typed parameter (unknown code).
func (r *Runner) funcParamCall(st *State, f *Frame, fnv Val, common *ssa.CallCommon, args []Val, res ssa.Value, pos token.Pos) bool {
	// A call of a function value that is not a known literal (a func-typed parameter or field):
	// modelled as a PURE uninterpreted function of the function value and the argument contents
	// (assumption, listed in the evidence). Only scalar / boolean results are modelled.
	if fnv.T == nil || len(fnv.C) != 1 {
		return false
	}
	sig, ok := fnv.T.Underlying().(*types.Signature)
	if !ok {
		return false
	}
	var as []Term
	as = append(as, fnv.C[0])
	for _, a := range args {
		switch {
		case a.T != nil && isSlice(a.T) && len(layout(elemOf(a.T))) == 1:
			as = append(as, st.backingArr(a, elemOf(a.T), 0), a.C[1], a.C[2])
		default:
			as = append(as, a.C...)
		}
	}
	r.nilCheck(st, fnv, "call of nil func "+exprText(f.fn, common.Value), pos)
	r.noteLeaks(st, args)
	// call-site assertions of the calling function (before NAME [label] expr) for a func-typed value,
	// NAME being its source text (e.g. the parameter name); arg0, arg1, ... name the arguments
	if f.spec != nil && r.quiet == 0 {
		if cs := f.spec.Before[exprText(f.fn, common.Value)]; len(cs) > 0 {
			cenv := r.loopEnv(st, f)
			for i := range args {
				cenv.vars[fmt.Sprintf("arg%d", i)] = args[i]
			}
			for _, c := range cs {
				g := cenv.EvalBool(c.E, st)
				r.oblige(st, "before", exprText(f.fn, common.Value)+"."+c.Label, g, pos)
				r.beforeHit[exprText(f.fn, common.Value)+"."+c.Label] = true
			}
		}
	}
	var rets []Val
	if res != nil {
		rt := sig.Results()
		out := Val{T: res.Type()}
		for i := 0; i < rt.Len(); i++ {
			ls := layout(rt.At(i).Type())
			if len(ls) != 1 || (ls[0].Sort != SBool && ls[0].Sort != SInt) {
				return false
			}
			c := uf(fmt.Sprintf("fnres%d_%s", i, ls[0].Sort), ls[0].Sort, as...)
			rv := Val{T: rt.At(i).Type(), C: []Term{st.define("fnres", c)}}
			st.assumeRange(rv)
			rets = append(rets, rv)
			out.C = append(out.C, rv.C...)
		}
		if rt.Len() == 1 {
			out = rets[0]
		}
		f.regs[res] = out
	}
	r.note("func-typed value " + exprText(f.fn, common.Value) + " modelled as a pure function of its arguments")
	// call history under the source name of the function value
	name := exprText(f.fn, common.Value)
	if st.lastCall == nil {
		st.lastCall = map[string]callRec{}
	}
	if prev, had := st.lastCall[name]; had {
		st.lastCall["prev:"+name] = prev
	}
	st.lastCall[name] = callRec{args: args, rets: rets}
	if r.recorded != nil {
		r.recorded[name] = true
	}
	st.ghost["calls:"+name] = st.define("calls", Add(r.callsTerm(st, name), One))
	return true
}

// model handles functions with built-in semantics. Returns true if handled.
func (r *Runner) model(st *State, f *Frame, key string, callee *ssa.Function, args []Val, res ssa.Value, pos token.Pos, in ssa.Instruction) bool {
	switch key {
	case "(*sync.Mutex).Lock", "(*sync.RWMutex).Lock":
		r.lockAcquire(st, r.placeOf(args[0]), "w", pos)
		return true
	case "(*sync.RWMutex).RLock":
		r.lockAcquire(st, r.placeOf(args[0]), "r", pos)
		return true
	case "(*sync.Mutex).Unlock", "(*sync.RWMutex).Unlock":
		r.lockRelease(st, r.placeOf(args[0]), pos, false)
		return true
	case "(*sync.RWMutex).RUnlock":
		r.lockRelease(st, r.placeOf(args[0]), pos, true)
		return true
	case "(*sync.Mutex).TryLock", "(*sync.RWMutex).TryLock":
		// nondeterministic: either the lock is acquired (result true) or nothing happens (false)
		lp := r.placeOf(args[0])
		other := r.fork(st)
		if res != nil {
			f.regs[res] = Val{T: res.Type(), C: []Term{True}}
			other.top().regs[res] = Val{T: res.Type(), C: []Term{False}}
		}
		st.trail = append(st.trail, "trylock:ok")
		other.trail = append(other.trail, "trylock:busy")
		r.lockAcquire(st, lp, "w", pos)
		r.work = append(r.work, other)
		return true
	case "errors.New", "fmt.Errorf":
		if res != nil {
			f.regs[res] = r.newError(st, res.Type())
		}
		return true
	case "fmt.Sprintf":
		return r.sprintfModel(st, f, args, res, in)
	case "sync/atomic.AddInt64", "sync/atomic.AddInt32", "sync/atomic.AddUint64", "sync/atomic.AddUint32",
		"sync/atomic.LoadInt64", "sync/atomic.LoadInt32", "sync/atomic.LoadUint64", "sync/atomic.LoadUint32",
		"sync/atomic.StoreInt64", "sync/atomic.StoreInt32", "sync/atomic.StoreUint64", "sync/atomic.StoreUint32",
		"sync/atomic.CompareAndSwapInt64", "sync/atomic.CompareAndSwapInt32", "sync/atomic.CompareAndSwapUint64", "sync/atomic.CompareAndSwapUint32":
		return r.atomicFuncModel(st, f, key, args, res, pos)
	case "(*sync.WaitGroup).Add", "(*sync.WaitGroup).Done", "(*sync.WaitGroup).Wait", "(*sync.Once).Do":
		if key == "(*sync.Once).Do" {
			return false
		}
		r.yield(st)
		return true
	case "(*sync.Cond).Wait":
		return r.condWait(st, f, args[0], pos)
	case "(*sync.Cond).Broadcast", "(*sync.Cond).Signal":
		r.condSignal(st, f, args[0], pos)
		return true
	case "sync.NewCond":
		ref := st.allocRef("cond")
		st.nonnil[ref.S] = true
		v := Val{T: res.Type(), C: []Term{ref}}
		// remember which locker this cond is bound to
		st.boxes["cond:"+ref.S] = args[0]
		if res != nil {
			f.regs[res] = v
		}
		return true
	}
	if strings.HasPrefix(key, "(*sync/atomic.") {
		return r.atomicModel(st, f, key, args, res)
	}
	return false
}

func (r *Runner) atomicModel(st *State, f *Frame, key string, args []Val, res ssa.Value) bool {
	// (*sync/atomic.Int64).Add etc.: a single scalar cell at the receiver
	i := strings.Index(key, ").")
	meth := key[i+2:]
	recv := args[0]
	p := r.placeOf(recv)
	t, _, _ := p.typeAt()
	stt, ok := t.Underlying().(*types.Struct)
	if !ok {
		return false
	}
	vi := -1
	for i := 0; i < stt.NumFields(); i++ {
		if stt.Field(i).Name() == "v" {
			vi = i
		}
	}
	if vi < 0 {
		return false
	}
	vp := p.withField(vi)
	vt := stt.Field(vi).Type()
	switch meth {
	case "Load":
		v := st.load(vp)
		if res != nil {
			out := v
			out.T = res.Type()
			if isBool(res.Type()) && v.C[0].Sort == SInt {
				out.C = []Term{Ne(v.C[0], Zero)}
			}
			f.regs[res] = out
		}
		return true
	case "Store":
		nv := args[1]
		if isBool(nv.T) && len(layout(vt)) == 1 && layout(vt)[0].Sort == SInt {
			nv = Val{T: vt, C: []Term{Ite(nv.C[0], One, Zero)}}
		} else {
			nv.T = vt
		}
		st.store(vp, nv)
		return true
	case "Add":
		v := st.load(vp)
		nv := Val{T: vt, C: []Term{wrapNear(Add(v.C[0], args[1].C[0]), vt)}}
		st.store(vp, nv)
		if res != nil {
			out := nv
			out.T = res.Type()
			f.regs[res] = out
		}
		return true
	}
	return false
}

// condition variables: Wait releases the lock, blocks, re-acquires.
func (r *Runner) condLocker(st *State, c Val) *Place {
	if l, ok := st.boxes["cond:"+c.C[0].S]; ok && l.P != nil {
		return l.P
	}
	return nil
}

func (r *Runner) condWait(st *State, f *Frame, c Val, pos token.Pos) bool {
	lp := c.Lk
	if lp == nil {
		lp = r.condLocker(st, c)
	}
	if lp == nil {
		// cond.L unknown: look for exactly one held lock
		if len(st.held) != 1 {
			panic(unsupported("cond.Wait with unknown locker"))
		}
		for k := range st.held {
			r.note("cond.Wait: assuming the condition's locker is the single held lock " + k)
			p := st.heldPlace[k]
			lp = p
		}
		if lp == nil {
			panic(unsupported("cond.Wait with unknown locker"))
		}
	}
	r.inWait = true
	r.lockRelease(st, lp, pos, false)
	r.inWait = false
	r.lockAcquire(st, lp, "w", pos)
	return true
}

// applyRely: interference assumptions declared by the function's contract, assumed after
// every lock acquisition (including the re-acquisition inside cond.Wait).
func (r *Runner) applyRely(st *State) bool {
	if r.curSpec != nil && len(st.frames) > 0 {
		top := st.frames[0]
		for _, c := range r.curSpec.Rely {
			env := r.newEnv(st, top.fn.Pkg)
			env.frame = top
			for i, n := range r.curSpec.Formals {
				if n != "_" && i < len(top.params) {
					env.vars[n] = top.params[i]
				}
			}
			func() {
				// a rely clause may mention locals that do not exist yet at an early acquisition: skip it there
				defer func() {
					if e := recover(); e != nil {
						se, ok := e.(specErr)
						if !ok {
							panic(e)
						}
						r.note("rely[" + c.Label + "] not applicable at this acquisition: " + se.msg)
					}
				}()
				t := env.EvalBool(c.E, st)
				st.assume(t)
				r.note("rely[" + c.Label + "] assumed after lock acquisition: " + c.Src)
			}()
		}
	}
	return true
}

func (r *Runner) condSignal(st *State, f *Frame, c Val, pos token.Pos) {
	lp := c.Lk
	if lp == nil {
		lp = r.condLocker(st, c)
	}
	if lp == nil {
		return
	}
	// a wake-up is now pending for every waiter: no unsignalled falsification remains
	delete(st.ghost, "needsignal:"+lockKey(lp))
}

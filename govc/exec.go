package main

// Symbolic executor over go/ssa (NaiveForm): verification-condition generator.

import (
	"fmt"
	"go/constant"
	"go/token"
	"go/types"
	"sort"
	"strings"

	"golang.org/x/tools/go/ssa"
)

type Oblig struct {
	Name   string // aggregated identity: Func#kind[label]
	Kind   string
	Fn     string
	Goal   Term
	PC     []Term
	Pos    string
	Trail  string
	Expect string // "unsat" (proof obligation) or "sat" (vacuity / reachability check)
	Props  []string
	// filled by the solver stage
	Status string // "discharged","refuted","unknown"
	Solver string
	Secs   float64
	Model  string
	Query  string
	Detail string
	// replay info
	Params []Val
	FnObj  *ssa.Function
	Spec   *FuncSpec
	// postconditions only: the symbolic results and the heaps at entry / at the return (for pinning real outputs)
	Rets      []Val
	EntryHeap map[string]Term
	ExitHeap  map[string]Term
}

type Runner struct {
	curProp     string               // property being verified ("" = all): selects property-scoped guarded_by declarations
	scopedTypes map[string]*TypeSpec // type + property -> type contract with the scoped declarations merged in
	wantPostSnap bool // the contract under verification refers to the state after a call (mapsamesince)
	atReturn bool  // finish() is evaluating the postconditions of the function under verification
	curRets  []Val // results of the return being checked (set by finish)
	prog     *ssa.Program
	specs    *SpecSet
	obligs   []*Oblig
	notes    map[string]bool // abstractions / havocs, for evidence
	maxPaths int
	maxInl   int
	frameCtr int
	// per function run
	curFn    *ssa.Function
	curSpec  *FuncSpec
	curName  string
	recorded map[string]bool // call-history names for which a call was recorded on some path of the function under verification
	histSigs map[string]*types.Signature // call-history name -> signature of the calls the function under verification contains (typed lastret on paths without the call)
	paths    int
	quiet    int // >0: speculative execution (no obligations)
	work     []*State
	loopInfo map[*ssa.Function]*LoopInfo
	globIDs  map[*ssa.Global]int64
	fnIDs    map[*ssa.Function]int64
	pkgOf    func(*ssa.Function) string
	specRec  *specRecorder
	occ      map[string]int
	inWait   bool
	noMerge  bool
	csEvaluated map[string]bool // critical-section clauses evaluated on at least one path
	beforeHit   map[string]bool // call-site clauses (before CALLEE ...) that met a call on at least one path
}

type LoopInfo struct {
	headers []*ssa.BasicBlock          // in block order
	ord     map[int]int                // header block index -> ordinal
	body    map[int]map[int]bool       // header block index -> set of block indices
}

func (r *Runner) note(s string) {
	if r.notes == nil {
		r.notes = map[string]bool{}
	}
	r.notes[r.curName+": "+s] = true
}

func (r *Runner) loops(fn *ssa.Function) *LoopInfo {
	if li, ok := r.loopInfo[fn]; ok {
		return li
	}
	li := &LoopInfo{ord: map[int]int{}, body: map[int]map[int]bool{}}
	for _, b := range fn.Blocks {
		for _, s := range b.Succs {
			if s.Dominates(b) {
				// back edge b -> s
				if _, ok := li.body[s.Index]; !ok {
					li.body[s.Index] = map[int]bool{s.Index: true}
					li.headers = append(li.headers, s)
				}
				// collect body: nodes reaching b without passing s
				set := li.body[s.Index]
				var stack []*ssa.BasicBlock
				if !set[b.Index] {
					set[b.Index] = true
					stack = append(stack, b)
				}
				for len(stack) > 0 {
					x := stack[len(stack)-1]
					stack = stack[:len(stack)-1]
					for _, p := range x.Preds {
						if !set[p.Index] {
							set[p.Index] = true
							stack = append(stack, p)
						}
					}
				}
			}
		}
	}
	sort.Slice(li.headers, func(i, j int) bool { return li.headers[i].Index < li.headers[j].Index })
	for i, h := range li.headers {
		li.ord[h.Index] = i
	}
	if r.loopInfo == nil {
		r.loopInfo = map[*ssa.Function]*LoopInfo{}
	}
	r.loopInfo[fn] = li
	return li
}

// ---------- obligations ----------

func posOf(fn *ssa.Function, p token.Pos) string {
	if !p.IsValid() || fn == nil || fn.Prog == nil {
		return ""
	}
	ps := fn.Prog.Fset.Position(p)
	return fmt.Sprintf("%s:%d", ps.Filename, ps.Line)
}

func (r *Runner) oblige(st *State, kind, label string, goal Term, pos token.Pos) {
	if r.quiet > 0 {
		st.assume(goal)
		return
	}
	if goal.S == "true" {
		// contract-level obligations that fold to true are still recorded (discharged syntactically),
		// so that they are part of the baseline and a change that makes them non-trivial is noticed
		switch kind {
		case "post", "pre", "cs", "before", "nogo", "inv-init", "inv-step", "iter", "stable", "lockinv", "decr", "signal", "lostwakeup":
			n := r.curName + "#" + kind
			if label != "" {
				n += "[" + label + "]"
			}
			o := &Oblig{Name: n, Kind: kind, Fn: r.curName, Goal: goal, Expect: "unsat", Status: "discharged", Solver: "trivial", FnObj: r.curFn, Spec: r.curSpec}
			if r.curSpec != nil {
				o.Props = clauseProps(label, r.curSpec.Props)
			}
			r.obligs = append(r.obligs, o)
		}
		return
	}
	name := r.curName + "#" + kind
	if label != "" {
		name += "[" + label + "]"
	}
	o := &Oblig{Name: name, Kind: kind, Fn: r.curName, Goal: goal, PC: st.fullPC(),
		Pos: posOf(st.top().fn, pos), Trail: strings.Join(st.trail, ","), Expect: "unsat", FnObj: r.curFn, Spec: r.curSpec}
	if len(st.frames) > 0 {
		o.Params = st.frames[0].params
		if e := st.frames[0].entry; e != nil {
			o.EntryHeap = e.heap
		}
	}
	if kind == "post" && r.atReturn {
		o.Rets = r.curRets
		o.ExitHeap = make(map[string]Term, len(st.heap))
		for k, v := range st.heap {
			o.ExitHeap[k] = v
		}
	}
	if r.curSpec != nil {
		o.Props = clauseProps(label, r.curSpec.Props)
	}
	r.obligs = append(r.obligs, o)
	if kind == "lockset" {
		// a breach of the lock discipline says nothing about the values on the path: the path goes on
		// (assuming the goal -- often literally false -- would make everything after it vacuous)
		return
	}
	st.assume(goal)
}

// reach adds a vacuity check: the current path condition must be satisfiable.
func (r *Runner) reach(st *State, label string) {
	if r.quiet > 0 {
		return
	}
	o := &Oblig{Name: r.curName + "#reach[" + label + "]", Kind: "reach", Fn: r.curName, Goal: False,
		PC: st.fullPC(), Expect: "sat", Trail: strings.Join(st.trail, ","), FnObj: r.curFn, Spec: r.curSpec}
	if r.curSpec != nil {
		o.Props = r.curSpec.Props
	}
	r.obligs = append(r.obligs, o)
}

func exprText(fn *ssa.Function, v ssa.Value) string {
	// best-effort stable source-ish rendering of an operand
	switch x := v.(type) {
	case *ssa.Const:
		return x.Value.String()
	case *ssa.Parameter:
		return x.Name()
	case *ssa.Alloc:
		return x.Comment
	case *ssa.UnOp:
		if x.Op == token.MUL {
			return exprText(fn, x.X)
		}
		return x.Op.String() + exprText(fn, x.X)
	case *ssa.FieldAddr:
		st := x.X.Type().Underlying().(*types.Pointer).Elem().Underlying().(*types.Struct)
		return exprText(fn, x.X) + "." + st.Field(x.Field).Name()
	case *ssa.Field:
		st := x.X.Type().Underlying().(*types.Struct)
		return exprText(fn, x.X) + "." + st.Field(x.Field).Name()
	case *ssa.IndexAddr:
		return exprText(fn, x.X) + "[" + exprText(fn, x.Index) + "]"
	case *ssa.BinOp:
		return exprText(fn, x.X) + x.Op.String() + exprText(fn, x.Y)
	case *ssa.Slice:
		s := exprText(fn, x.X) + "["
		if x.Low != nil {
			s += exprText(fn, x.Low)
		}
		s += ":"
		if x.High != nil {
			s += exprText(fn, x.High)
		}
		return s + "]"
	case *ssa.Call:
		if b, ok := x.Call.Value.(*ssa.Builtin); ok {
			as := []string{}
			for _, a := range x.Call.Args {
				as = append(as, exprText(fn, a))
			}
			return b.Name() + "(" + strings.Join(as, ",") + ")"
		}
		if f := x.Call.StaticCallee(); f != nil {
			return f.Name() + "()"
		}
		return "call"
	case *ssa.Convert:
		return shortType(x.Type()) + "(" + exprText(fn, x.X) + ")"
	case *ssa.Extract:
		return exprText(fn, x.Tuple) + fmt.Sprintf("#%d", x.Index)
	}
	return "_"
}

// ---------- values of operands ----------

func (r *Runner) constVal(st *State, c *ssa.Const) Val {
	t := c.Type()
	if c.Value == nil {
		return zeroVal(t)
	}
	switch {
	case isBool(t):
		return Val{T: t, C: []Term{BoolLit(constant.BoolVal(c.Value))}}
	case isString(t):
		return r.stringLit(st, t, constant.StringVal(c.Value))
	case isFloat(t):
		f, _ := constant.Float64Val(c.Value)
		return Val{T: t, C: []Term{floatConst(f)}}
	}
	if _, _, ok := intInfo(t); ok {
		n, ok2 := new(bigInt).SetString(c.Value.ExactString(), 10)
		if !ok2 {
			panic(unsupported("constant " + c.Value.ExactString()))
		}
		return Val{T: t, C: []Term{BigLit(n)}}
	}
	return freshVal("const", t)
}

var strLitCache = map[string]Term{}

func (r *Runner) stringLit(st *State, t types.Type, s string) Val {
	if len(s) == 0 {
		return Val{T: t, C: []Term{constArr(SArr), Zero, Zero}}
	}
	symMu.Lock()
	arr, ok := strLitCache[s]
	symMu.Unlock()
	if !ok {
		arr = Fresh("strlit", SArr)
		symMu.Lock()
		strLitCache[s] = arr
		symMu.Unlock()
	}
	// content facts (bounded length)
	key := "strlit:" + arr.S
	if _, done := st.defs[key]; !done {
		st.defs[key] = arr
		n := len(s)
		if n > 64 {
			n = 64
		}
		for i := 0; i < n; i++ {
			st.pc = append(st.pc, Eq(Select(arr, IntLit(int64(i))), IntLit(int64(s[i]))))
		}
	}
	return Val{T: t, C: []Term{arr, Zero, IntLit(int64(len(s)))}}
}

func (r *Runner) operand(st *State, v ssa.Value) Val {
	f := st.top()
	switch x := v.(type) {
	case *ssa.Const:
		return r.constVal(st, x)
	case *ssa.Global:
		return r.globalPtr(x)
	case *ssa.Function:
		return Val{T: x.Type(), C: []Term{IntLit(r.fnID(x))}, Clo: &Closure{Fn: x}}
	case *ssa.Builtin:
		panic(unsupported("builtin as value"))
	}
	if val, ok := f.regs[v]; ok {
		return val
	}
	panic(fmt.Sprintf("no value for %s = %s in %s", v.Name(), v.String(), f.fn.Name()))
}

func (r *Runner) fnID(f *ssa.Function) int64 {
	if r.fnIDs == nil {
		r.fnIDs = map[*ssa.Function]int64{}
	}
	if id, ok := r.fnIDs[f]; ok {
		return id
	}
	id := int64(len(r.fnIDs) + 1)
	r.fnIDs[f] = id
	return id
}

func (r *Runner) globalPtr(g *ssa.Global) Val {
	if r.globIDs == nil {
		r.globIDs = map[*ssa.Global]int64{}
	}
	id, ok := r.globIDs[g]
	if !ok {
		id = int64(len(r.globIDs) + 1)
		r.globIDs[g] = id
	}
	et := g.Type().Underlying().(*types.Pointer).Elem()
	// globals live in their own heap kind keyed by the global's name, at index 0
	return Val{T: g.Type(), C: []Term{IntLit(id)}, P: &Place{Kind: PObj, Base: IntLit(id), Root: et}}
}

// placeOf returns the place a pointer value designates.
func (r *Runner) placeOf(v Val) *Place {
	if v.P != nil {
		return v.P
	}
	pt, ok := v.T.Underlying().(*types.Pointer)
	if !ok {
		panic(unsupported("placeOf non-pointer " + v.T.String()))
	}
	return &Place{Kind: PObj, Base: v.C[0], Root: pt.Elem()}
}

func (r *Runner) nilCheck(st *State, v Val, what string, pos token.Pos) {
	if v.P != nil && v.P.Kind == PCell {
		return
	}
	k := v.C[0].S
	if st.nonnil[k] {
		return
	}
	if r.wantPanicChecks("nil") {
		r.oblige(st, "nil", what, Ne(v.C[0], Zero), pos)
	} else {
		st.assume(Ne(v.C[0], Zero))
	}
	st.nonnil[k] = true
}

func (r *Runner) wantPanicChecks(kind string) bool {
	if r.curSpec == nil || !r.curSpec.NoPanic {
		return false
	}
	return r.curSpec.NoPanicKinds == nil || r.curSpec.NoPanicKinds[kind]
}

// panicCheck emits a no-panic obligation (or assumes the condition when the
// function is not under a nopanic contract).
func (r *Runner) panicCheck(st *State, kind, label string, cond Term, pos token.Pos) {
	if r.wantPanicChecks(kind) {
		r.oblige(st, kind, label, cond, pos)
	} else {
		st.assume(cond)
	}
}

// ---------- the machine ----------

func (r *Runner) newFrame(fn *ssa.Function, depth int) *Frame {
	r.frameCtr++
	return &Frame{id: r.frameCtr, fn: fn, regs: map[ssa.Value]Val{}, loops: map[int]*loopRun{}, depth: depth}
}

// run explores all paths from the states in the worklist.
func (r *Runner) run() {
	for len(r.work) > 0 {
		st := r.work[len(r.work)-1]
		r.work = r.work[:len(r.work)-1]
		for !st.dead {
			r.step(st)
			st.steps++
			if st.steps > 200000 {
				panic(unsupported("step limit"))
			}
		}
	}
}

func (r *Runner) fork(st *State) *State {
	r.paths++
	if r.paths > r.maxPaths {
		panic(unsupported(fmt.Sprintf("path cap %d exceeded", r.maxPaths)))
	}
	n := st.clone()
	return n
}

func (r *Runner) gotoBlock(st *State, to *ssa.BasicBlock) {
	f := st.top()
	from := f.blk
	li := r.loops(f.fn)
	if s := r.specRec; s != nil && len(st.frames)-1 == s.depth && f.id == s.frameID && !s.body[to.Index] {
		// speculative run of a loop body: a path that leaves the body (possibly straight to the
		// header of an enclosing loop) does not influence the state seen at this loop's head
		st.dead = true
		return
	}
	if body, isHdr := li.body[to.Index]; isHdr {
		_ = body
		back := from != nil && to.Dominates(from) && li.body[to.Index][from.Index]
		if back {
			if r.specRec != nil && r.specRec.matches(st, f, to) {
				r.specRec.record(st)
				st.dead = true
				return
			}
			if lr := f.loops[to.Index]; lr != nil {
				r.loopBackEdge(st, f, to, lr)
				st.dead = true
				return
			}
			panic(unsupported("back edge into a loop that was not entered through its header"))
		} else {
			f.prev, f.blk, f.ip = from, to, 0
			r.loopEnter(st, f, to)
			return
		}
	}
	f.prev, f.blk, f.ip = from, to, 0
}

func (r *Runner) step(st *State) {
	f := st.top()
	if f.blk == nil {
		f.blk = f.fn.Blocks[0]
		f.ip = 0
	}
	if r.specRec != nil && r.specRec.stop(st, f) {
		return
	}
	in := f.blk.Instrs[f.ip]
	f.ip++
	switch x := in.(type) {
	case *ssa.DebugRef:
	case *ssa.Alloc:
		r.execAlloc(st, f, x)
	case *ssa.Store:
		addr := r.operand(st, x.Addr)
		val := r.operand(st, x.Val)
		r.nilCheck(st, addr, exprText(f.fn, x.Addr), x.Pos())
		p := r.placeOf(addr)
		r.guardCheck(st, p, true, x.Pos())
		r.escapeCheck(st, p, val)
		r.storeChecked(st, p, val, x.Pos())
	case *ssa.UnOp:
		r.execUnOp(st, f, x)
	case *ssa.BinOp:
		f.regs[x] = r.binop(st, x.Op, r.operand(st, x.X), r.operand(st, x.Y), x.Type(), x.Pos(), x)
	case *ssa.FieldAddr:
		base := r.operand(st, x.X)
		r.nilCheck(st, base, exprText(f.fn, x.X), x.Pos())
		p := r.placeOf(base).withField(x.Field)
		fv := Val{T: x.Type(), C: []Term{r.interiorID(st, p)}, P: p}
		if base.Lk != nil {
			// &cond.L of a condition variable bound to a known mutex
			if stt, ok := x.X.Type().Underlying().(*types.Pointer).Elem().Underlying().(*types.Struct); ok && stt.Field(x.Field).Name() == "L" {
				fv.Lk = base.Lk
			}
		}
		f.regs[x] = fv
	case *ssa.Field:
		sv := r.operand(st, x.X)
		lo, hi := fieldRange(x.X.Type(), x.Field)
		f.regs[x] = sub(sv, x.Type(), lo, hi)
	case *ssa.IndexAddr:
		r.execIndexAddr(st, f, x)
	case *ssa.Index:
		r.execIndex(st, f, x)
	case *ssa.Slice:
		r.execSlice(st, f, x)
	case *ssa.MakeSlice:
		r.execMakeSlice(st, f, x)
	case *ssa.MakeMap:
		ref := st.allocRef("map")
		mv := Val{T: x.Type(), C: []Term{ref}}
		r.mapInit(st, mv)
		f.regs[x] = mv
		st.nonnil[ref.S] = true
	case *ssa.MakeChan:
		ref := st.allocRef("chan")
		f.regs[x] = Val{T: x.Type(), C: []Term{ref}}
		st.nonnil[ref.S] = true
		st.assume(Not(Select(r.closedHeap(st), ref))) // a new channel is open (revealed)
	case *ssa.MakeInterface:
		f.regs[x] = r.makeIface(st, x.Type(), r.operand(st, x.X))
	case *ssa.MakeClosure:
		fn := x.Fn.(*ssa.Function)
		var bs []Val
		for _, b := range x.Bindings {
			bs = append(bs, r.operand(st, b))
		}
		id := st.allocRef("clo")
		f.regs[x] = Val{T: x.Type(), C: []Term{id}, Clo: &Closure{Fn: fn, Bindings: bs}}
	case *ssa.Convert:
		f.regs[x] = r.convert(st, r.operand(st, x.X), x.Type(), x.Pos(), x)
	case *ssa.ChangeType:
		v := r.operand(st, x.X)
		v.T = x.Type()
		f.regs[x] = v
	case *ssa.ChangeInterface:
		v := r.operand(st, x.X)
		v.T = x.Type()
		f.regs[x] = v
	case *ssa.SliceToArrayPointer:
		panic(unsupported("SliceToArrayPointer"))
	case *ssa.Phi:
		idx := -1
		for i, p := range f.blk.Preds {
			if p == f.prev {
				idx = i
			}
		}
		if idx < 0 {
			// loop-header phi after havoc: fresh
			v := freshVal("phi", x.Type())
			st.assumeRange(v)
			f.regs[x] = v
		} else {
			f.regs[x] = r.operand(st, x.Edges[idx])
		}
	case *ssa.Extract:
		tv := r.operand(st, x.Tuple)
		lo, hi := tupleRange(x.Tuple.Type().(*types.Tuple), x.Index)
		out := sub(tv, x.Type(), lo, hi)
		if tv.Clo != nil && tv.Clo.Fn == nil && x.Index < len(tv.Clo.Bindings) {
			// tuple carrying Go-side info per component
			b := tv.Clo.Bindings[x.Index]
			out.P, out.Bk, out.Clo = b.P, b.Bk, b.Clo
		}
		f.regs[x] = out
	case *ssa.TypeAssert:
		r.execTypeAssert(st, f, x)
	case *ssa.Lookup:
		r.execLookup(st, f, x)
	case *ssa.MapUpdate:
		m := r.operand(st, x.Map)
		r.panicCheck(st, "nilmap", exprText(f.fn, x.Map), Ne(m.C[0], Zero), x.Pos())
		r.mapStore(st, m, r.operand(st, x.Key), r.operand(st, x.Value))
	case *ssa.Range:
		r.execRange(st, f, x)
	case *ssa.Next:
		r.execNext(st, f, x)
	case *ssa.Call:
		r.execCall(st, f, x, &x.Call, x)
	case *ssa.Defer:
		d := deferred{call: &x.Call, instr: x}
		if !x.Call.IsInvoke() {
			if _, isB := x.Call.Value.(*ssa.Builtin); !isB {
				d.fn = r.operand(st, x.Call.Value)
			}
		} else {
			d.fn = r.operand(st, x.Call.Value)
		}
		for _, a := range x.Call.Args {
			d.args = append(d.args, r.operand(st, a))
		}
		f.defers = append(f.defers, d)
	case *ssa.Go:
		r.execGo(st, f, x)
	case *ssa.RunDefers:
		if len(f.defers) > 0 {
			d := f.defers[len(f.defers)-1]
			f.defers = f.defers[:len(f.defers)-1]
			f.ip-- // come back here until the stack is empty
			r.execCallVals(st, f, d.call, d.fn, d.args, nil, d.instr)
		}
	case *ssa.Return:
		var rv []Val
		for _, a := range x.Results {
			rv = append(rv, r.operand(st, a))
		}
		r.doReturn(st, f, rv, x.Pos())
	case *ssa.Panic:
		r.doPanic(st, f, x.Pos(), "panic("+exprText(f.fn, x.X)+")")
	case *ssa.If:
		c := r.operand(st, x.Cond).Term()
		r.branch(st, f, c, f.blk.Succs[0], f.blk.Succs[1])
	case *ssa.Jump:
		r.gotoBlock(st, f.blk.Succs[0])
	case *ssa.Send:
		r.execSend(st, f, x)
	case *ssa.Select:
		r.execSelect(st, f, x)
	default:
		panic(unsupported(fmt.Sprintf("instruction %T", in)))
	}
}

func (r *Runner) branch(st *State, f *Frame, c Term, tb, fb *ssa.BasicBlock) {
	switch c.S {
	case "true":
		r.gotoBlock(st, tb)
		return
	case "false":
		r.gotoBlock(st, fb)
		return
	}
	if r.branchMerged(st, f, c, tb, fb) {
		return
	}
	other := r.fork(st)
	st.assume(c)
	st.trail = append(st.trail, fmt.Sprintf("b%d:T", f.blk.Index))
	r.gotoBlock(st, tb)
	of := other.top()
	other.assume(Not(c))
	other.trail = append(other.trail, fmt.Sprintf("b%d:F", of.blk.Index))
	r.gotoBlock(other, fb)
	if !other.dead {
		r.work = append(r.work, other)
	}
}

// interiorID gives an SMT identity to an interior pointer (never dereferenced through SMT).
func (r *Runner) interiorID(st *State, p *Place) Term {
	if len(p.Path) == 0 && !p.HasArr && p.Kind == PObj {
		return p.Base
	}
	return IntLit(-1)
}

func (r *Runner) execAlloc(st *State, f *Frame, x *ssa.Alloc) {
	et := x.Type().Underlying().(*types.Pointer).Elem()
	if !x.Heap {
		key := cellKey{f.id, x}
		st.cells[key] = zeroVal(et)
		f.regs[x] = Val{T: x.Type(), C: []Term{IntLit(-1)}, P: &Place{Kind: PCell, Cell: key, Root: et}}
		return
	}
	hint := x.Comment
	if hint == "" {
		hint = "new"
	}
	if at, ok := et.Underlying().(*types.Array); ok {
		// heap array: lives in the backing-array heaps so that slices of it are ordinary slices
		ref := st.allocRef("arr")
		for _, l := range layout(at.Elem()) {
			st.assume(Eq(Select(st.heapGet("M", at.Elem(), l), ref), constArr(ArrOf(l.Sort))))
		}
		st.nonnil[ref.S] = true
		f.regs[x] = Val{T: x.Type(), C: []Term{ref}, P: &Place{Kind: PArr, Base: ref, Root: at.Elem(), ArrLen: at.Len()}}
		return
	}
	base := st.allocRef(hint)
	p := &Place{Kind: PObj, Base: base, Root: et}
	// zero initialisation is *revealed* (the heap at an unallocated reference is unconstrained)
	for _, l := range layout(et) {
		st.assume(Eq(Select(st.heapGet("H", et, l), base), zeroOfLeaf(l)))
	}
	st.nonnil[base.S] = true
	f.regs[x] = Val{T: x.Type(), C: []Term{base}, P: p}
}

func (r *Runner) execUnOp(st *State, f *Frame, x *ssa.UnOp) {
	v := r.operand(st, x.X)
	switch x.Op {
	case token.MUL:
		if g, ok := x.X.(*ssa.Global); ok {
			if cv, ok2 := r.immutableGlobal(st, g); ok2 {
				f.regs[x] = cv
				return
			}
		}
		r.nilCheck(st, v, exprText(f.fn, x.X), x.Pos())
		p := r.placeOf(v)
		r.guardCheck(st, p, false, x.Pos())
		lv := st.load(p)
		if v.Lk != nil {
			lv.Lk = v.Lk
		} else if lk := r.condLockOf(p); lk != nil {
			lv.Lk = lk
		}
		if g, ok := x.X.(*ssa.Global); ok && g.Pkg != nil && r.specs.Globals[g.Pkg.Pkg.Path()+"."+g.Name()] != "" {
			// declared facts about a package-level variable that is initialised once in init and
			// never reassigned (the latter is checked here; the fact itself is an assumption)
			decl := r.specs.Globals[g.Pkg.Pkg.Path()+"."+g.Name()]
			if r.globalReassigned(g) {
				panic(specErr{"global " + g.Name() + " has a declared fact but is assigned outside init"})
			}
			if decl == "nonnil" {
				st.assume(Ne(lv.C[0], Zero))
				st.nonnil[lv.C[0].S] = true
			} else {
				e, _ := ParseExpr(strings.TrimPrefix(decl, "assume "))
				env := r.newEnv(st, g.Pkg)
				env.vars["v"] = lv
				st.assume(env.EvalBool(e, st))
				r.note("assumed about global " + g.Name() + ": " + strings.TrimPrefix(decl, "assume "))
				if strings.Contains(decl, "v != nil") {
					st.nonnil[lv.C[0].S] = true
				}
			}
		}
		f.regs[x] = lv
	case token.NOT:
		f.regs[x] = Val{T: x.Type(), C: []Term{Not(v.Term())}}
	case token.SUB:
		if isFloat(x.Type()) {
			f.regs[x] = Val{T: x.Type(), C: []Term{App(Func("fneg", []Sort{SInt}, SInt), SInt, v.Term())}}
			return
		}
		f.regs[x] = Val{T: x.Type(), C: []Term{wrapNear(Neg(v.Term()), x.Type())}}
	case token.XOR:
		// ^x = -x-1 (signed) ; 2^k-1-x (unsigned)
		bits, signed, _ := intInfo(x.Type())
		if signed {
			f.regs[x] = Val{T: x.Type(), C: []Term{Sub(Neg(v.Term()), One)}}
		} else {
			f.regs[x] = Val{T: x.Type(), C: []Term{Sub(BigLit(new(bigInt).Sub(pow2(bits), bigOne)), v.Term())}}
		}
	case token.ARROW:
		r.execRecv(st, f, x, v)
	default:
		panic(unsupported("unop " + x.Op.String()))
	}
}

func (r *Runner) execIndexAddr(st *State, f *Frame, x *ssa.IndexAddr) {
	base := r.operand(st, x.X)
	idx := r.operand(st, x.Index).Term()
	switch t := x.X.Type().Underlying().(type) {
	case *types.Slice:
		r.panicCheck(st, "idx", exprText(f.fn, x), And(Le(Zero, idx), Lt(idx, base.C[2])), x.Pos())
		abs := Add(base.C[1], idx)
		var p *Place
		if base.Bk != nil {
			p = base.Bk.withIndex(abs)
		} else {
			p = &Place{Kind: PElem, Base: base.C[0], Idx: abs, Root: t.Elem()}
		}
		f.regs[x] = Val{T: x.Type(), C: []Term{IntLit(-1)}, P: p}
	case *types.Pointer:
		at := t.Elem().Underlying().(*types.Array)
		r.nilCheck(st, base, exprText(f.fn, x.X), x.Pos())
		r.panicCheck(st, "idx", exprText(f.fn, x), And(Le(Zero, idx), Lt(idx, IntLit(at.Len()))), x.Pos())
		p := r.placeOf(base).withIndex(idx)
		f.regs[x] = Val{T: x.Type(), C: []Term{IntLit(-1)}, P: p}
	default:
		panic(unsupported("IndexAddr on " + x.X.Type().String()))
	}
}

func (r *Runner) execIndex(st *State, f *Frame, x *ssa.Index) {
	base := r.operand(st, x.X)
	idx := r.operand(st, x.Index).Term()
	switch t := x.X.Type().Underlying().(type) {
	case *types.Basic: // string
		r.panicCheck(st, "idx", exprText(f.fn, x.X)+"["+exprText(f.fn, x.Index)+"]", And(Le(Zero, idx), Lt(idx, base.C[2])), x.Pos())
		b := st.define("sb", Select(base.C[0], Add(base.C[1], idx)))
		st.assume(Le(Zero, b), Le(b, IntLit(255)))
		f.regs[x] = Val{T: x.Type(), C: []Term{b}}
	case *types.Array:
		r.panicCheck(st, "idx", exprText(f.fn, x.X)+"["+exprText(f.fn, x.Index)+"]", And(Le(Zero, idx), Lt(idx, IntLit(t.Len()))), x.Pos())
		out := Val{T: x.Type(), C: make([]Term, len(base.C))}
		for i, c := range base.C {
			out.C[i] = Select(c, idx)
		}
		st.assumeRange(out)
		f.regs[x] = out
	default:
		panic(unsupported("Index on " + x.X.Type().String()))
	}
}

func (r *Runner) execSlice(st *State, f *Frame, x *ssa.Slice) {
	base := r.operand(st, x.X)
	var lo, hi, mx Term
	if x.Low != nil {
		lo = r.operand(st, x.Low).Term()
	} else {
		lo = Zero
	}
	label := exprText(f.fn, x)
	switch t := x.X.Type().Underlying().(type) {
	case *types.Slice:
		if x.High != nil {
			hi = r.operand(st, x.High).Term()
		} else {
			hi = base.C[2]
		}
		capT := base.C[3]
		if x.Max != nil {
			mx = r.operand(st, x.Max).Term()
			r.panicCheck(st, "slice", label, And(Le(Zero, lo), Le(lo, hi), Le(hi, mx), Le(mx, capT)), x.Pos())
		} else {
			mx = capT
			r.panicCheck(st, "slice", label, And(Le(Zero, lo), Le(lo, hi), Le(hi, capT)), x.Pos())
		}
		out := Val{T: x.Type(), C: []Term{base.C[0], Add(base.C[1], lo), Sub(hi, lo), Sub(mx, lo)}, Bk: base.Bk}
		f.regs[x] = out
	case *types.Basic: // string
		if x.High != nil {
			hi = r.operand(st, x.High).Term()
		} else {
			hi = base.C[2]
		}
		r.panicCheck(st, "slice", label, And(Le(Zero, lo), Le(lo, hi), Le(hi, base.C[2])), x.Pos())
		f.regs[x] = Val{T: x.Type(), C: []Term{base.C[0], Add(base.C[1], lo), Sub(hi, lo)}}
	case *types.Pointer: // *array
		at := t.Elem().Underlying().(*types.Array)
		n := IntLit(at.Len())
		if x.High != nil {
			hi = r.operand(st, x.High).Term()
		} else {
			hi = n
		}
		r.nilCheck(st, base, exprText(f.fn, x.X), x.Pos())
		r.panicCheck(st, "slice", label, And(Le(Zero, lo), Le(lo, hi), Le(hi, n)), x.Pos())
		p := r.placeOf(base)
		if p.Kind == PArr {
			f.regs[x] = Val{T: x.Type(), C: []Term{p.Base, lo, Sub(hi, lo), Sub(n, lo)}}
			return
		}
		f.regs[x] = Val{T: x.Type(), C: []Term{IntLit(-2), lo, Sub(hi, lo), Sub(n, lo)}, Bk: p}
	default:
		panic(unsupported("Slice on " + x.X.Type().String()))
	}
}

func (r *Runner) execMakeSlice(st *State, f *Frame, x *ssa.MakeSlice) {
	ln := r.operand(st, x.Len).Term()
	cp := r.operand(st, x.Cap).Term()
	// sizes are checked for sign and len <= cap; running out of memory is not modelled
	r.panicCheck(st, "makeslice", exprText(f.fn, x.Len), And(Le(Zero, ln), Le(ln, cp), Le(cp, BigLit(pow2(62)))), x.Pos())
	if r.curSpec != nil && r.curSpec.AllocBound != nil && len(st.frames) == 1 {
		env := r.newEnv(st, f.fn.Pkg)
		env.frame = f
		for i, n := range r.curSpec.Formals {
			if n != "_" && i < len(f.params) {
				env.vars[n] = f.params[i]
			}
		}
		bound := env.intOf(env.EvalVal(r.curSpec.AllocBound, st))
		r.oblige(st, "alloc", exprText(f.fn, x.Len), Le(cp, bound), x.Pos())
	}
	f.regs[x] = r.newSlice(st, x.Type(), ln, cp, true)
}

// newSlice allocates a backing array; zero content is revealed when zero is true.
func (r *Runner) newSlice(st *State, t types.Type, ln, cp Term, zero bool) Val {
	et := elemOf(t)
	ref := st.allocRef("arr")
	if zero {
		for _, l := range layout(et) {
			st.assume(Eq(Select(st.heapGet("M", et, l), ref), constArr(ArrOf(l.Sort))))
		}
	}
	st.nonnil[ref.S] = true
	return Val{T: t, C: []Term{ref, Zero, ln, cp}}
}

func (r *Runner) makeIface(st *State, it types.Type, v Val) Val {
	if isIface(v.T) {
		v.T = it
		return v
	}
	tag := typeTag(v.T)
	var pay Term
	switch {
	case len(v.C) == 1 && v.C[0].Sort == SInt && isPtrLike(v.T):
		pay = v.C[0]
	default:
		pay = Fresh("box", SInt)
		st.assume(Gt(pay, Zero))
		st.boxes[pay.S] = v
	}
	out := Val{T: it, C: []Term{tag, pay}}
	if v.P != nil {
		out.P = v.P
	}
	return out
}

func (r *Runner) execTypeAssert(st *State, f *Frame, x *ssa.TypeAssert) {
	v := r.operand(st, x.X)
	at := x.AssertedType
	var ok Term
	var res Val
	if isIface(at) {
		okc := Fresh("implements", SBool)
		st.assume(Implies(okc, Ne(v.C[0], Zero)))
		if types.Identical(at.Underlying(), v.T.Underlying()) || types.AssignableTo(v.T, at) {
			ok = Ne(v.C[0], Zero)
		} else {
			ok = okc
		}
		res = Val{T: at, C: []Term{Ite(ok, v.C[0], Zero), Ite(ok, v.C[1], Zero)}}
	} else {
		ok = Eq(v.C[0], typeTag(at))
		if bv, has := st.boxes[v.C[1].S]; has && types.Identical(bv.T, at) {
			res = bv
		} else if isPtrLike(at) {
			res = Val{T: at, C: []Term{v.C[1]}}
			if v.P != nil {
				res.P = v.P
			}
		} else {
			res = freshVal("unbox", at)
			st.assumeRange(res)
		}
	}
	if x.CommaOk {
		z := zeroVal(at)
		out := Val{T: x.Type(), C: make([]Term, 0, len(res.C)+1)}
		for i := range res.C {
			out.C = append(out.C, Ite(ok, res.C[i], z.C[i]))
		}
		out.C = append(out.C, ok)
		out.Clo = &Closure{Bindings: []Val{res, {}}}
		f.regs[x] = out
		return
	}
	r.panicCheck(st, "typeassert", exprText(f.fn, x.X)+".("+shortType(at)+")", ok, x.Pos())
	f.regs[x] = res
}

func (r *Runner) doPanic(st *State, f *Frame, pos token.Pos, what string) {
	if r.wantPanicChecks("panic") {
		r.oblige(st, "panic", what, False, pos)
	}
	// explicit panic: the path ends here (callers' contracts do not cover panicking exits)
	st.dead = true
}

func (r *Runner) doReturn(st *State, f *Frame, rv []Val, pos token.Pos) {
	if len(st.frames) == 1 {
		r.finish(st, f, rv, pos)
		st.dead = true
		return
	}
	// inlined call returns
	st.frames = st.frames[:len(st.frames)-1]
	caller := st.top()
	if call, ok := f.callIn.(*ssa.Call); ok && call != nil {
		caller.regs[call] = packResults(call.Type(), rv)
	}
	r.afterInline(st, f)
}

func packResults(t types.Type, rv []Val) Val {
	if len(rv) == 1 {
		v := rv[0]
		return v
	}
	out := Val{T: t}
	var parts []Val
	for _, v := range rv {
		out.C = append(out.C, v.C...)
		parts = append(parts, v)
	}
	out.Clo = &Closure{Bindings: parts}
	return out
}

// clauseProps attributes an obligation to properties: a clause label of the
// form "C25:name" restricts the obligation to that property; otherwise it
// belongs to every property the function's contract is tagged with.
func clauseProps(label string, fnProps []string) []string {
	if i := strings.Index(label, ":"); i > 0 && i <= 4 && label[0] == 'C' {
		return []string{label[:i]}
	}
	return fnProps
}

package main

// Driver: load packages, find contracts, verify functions and lemmas.

import (
	"fmt"
	"go/types"
	"os"
	"path/filepath"
	"regexp"
	"runtime/debug"
	"sort"
	"strings"

	"golang.org/x/tools/go/packages"
	"golang.org/x/tools/go/ssa"
	"golang.org/x/tools/go/ssa/ssautil"
)

// repoRoot: the tree that is verified. /repo for every registered check; GOVC_REPO points the developer tools
// (seeded-change selftest) at a scratch clone so that they can run beside other work.
var repoRoot = func() string {
	if d := os.Getenv("GOVC_REPO"); d != "" {
		return d
	}
	return "/repo"
}()
const contractFile = "zz_verif_contracts.go"

type Loaded struct {
	prog  *ssa.Program
	pkgs  []*ssa.Package
	fns   map[string]*ssa.Function // String() -> function
	specs *SpecSet
}

// findContractDirs returns the package directories under /repo that carry contracts.
func findContractDirs() []string {
	var out []string
	filepath.Walk(repoRoot, func(p string, info os.FileInfo, err error) error {
		if err != nil {
			return nil
		}
		if info.IsDir() && (info.Name() == ".git" || info.Name() == "node_modules") {
			return filepath.SkipDir
		}
		if !info.IsDir() && info.Name() == contractFile {
			out = append(out, filepath.Dir(p))
		}
		return nil
	})
	sort.Strings(out)
	return out
}

func pkgPathOfDir(dir string) string {
	// module roots: /repo (github.com/hydraide/hydraide) and /repo/sdk/go/hydraidego
	rel, _ := filepath.Rel(repoRoot, dir)
	sdk := "sdk/go/hydraidego"
	if rel == sdk || strings.HasPrefix(rel, sdk+"/") {
		return "github.com/hydraide/hydraide/sdk/go/hydraidego/v3" + strings.TrimPrefix(rel, sdk)
	}
	if rel == "." {
		return "github.com/hydraide/hydraide"
	}
	return "github.com/hydraide/hydraide/" + rel
}

func loadAll(dirs []string, trustedDir string) (*Loaded, error) {
	ss := NewSpecSet()
	// contracts of every package in the repo (callee contracts may live in packages we do not load with syntax)
	for _, d := range findContractDirs() {
		if err := ss.ParseSpecFile(filepath.Join(d, contractFile), pkgPathOfDir(d)); err != nil {
			return nil, err
		}
	}
	if trustedDir != "" {
		fs, _ := filepath.Glob(filepath.Join(trustedDir, "*.spec"))
		sort.Strings(fs)
		for _, f := range fs {
			if err := ss.ParseSpecFile(f, ""); err != nil {
				return nil, err
			}
		}
	}
	var patterns []string
	for _, d := range dirs {
		patterns = append(patterns, d)
	}
	cfg := &packages.Config{Mode: packages.LoadSyntax, Dir: repoRoot, BuildFlags: []string{"-tags=verif"},
		Env: append(os.Environ(), "PATH=/opt/veriftools/go1.26.8/bin:"+os.Getenv("PATH"), "GOFLAGS=", "GOPROXY=off", "GOSUMDB=off", "GOTOOLCHAIN=local")}
	pkgs, err := packages.Load(cfg, patterns...)
	if err != nil {
		return nil, err
	}
	var errs []string
	for _, p := range pkgs {
		for _, e := range p.Errors {
			errs = append(errs, e.Error())
		}
	}
	if len(errs) > 0 {
		return nil, fmt.Errorf("package load errors:\n%s", strings.Join(errs, "\n"))
	}
	prog, spkgs := ssautil.Packages(pkgs, ssa.NaiveForm|ssa.GlobalDebug|ssa.BuildSerially)
	prog.Build()
	l := &Loaded{prog: prog, specs: ss, fns: map[string]*ssa.Function{}}
	for _, p := range spkgs {
		if p != nil {
			l.pkgs = append(l.pkgs, p)
		}
	}
	for fn := range ssautil.AllFunctions(prog) {
		if fn.Synthetic != "" && !strings.Contains(fn.Synthetic, "instance") {
			if _, isLit := fn.Syntax().(interface{}); !isLit {
				continue
			}
		}
		l.fns[fn.String()] = fn
	}
	return l, nil
}

type FnResult struct {
	Key     string
	Spec    *FuncSpec
	Err     string // unsupported / spec error: function not verified
	Paths   int
	Obligs  []*Oblig
	Vacuous []string // call-history names the contract mentions for which no call was recorded on any path
}

func (l *Loaded) newRunner() *Runner {
	return &Runner{prog: l.prog, specs: l.specs, maxPaths: 4096, maxInl: 3, occ: map[string]int{}}
}

func shortFn(key string) string {
	if strings.Contains(key, "/sdk/go/hydraidego/") {
		return "sdk." + shortFn0(key)
	}
	return shortFn0(key)
}

func shortFn0(key string) string {
	// (*github.com/x/y/pkg.T).M -> pkg.(*T).M ; github.com/x/pkg.F -> pkg.F
	s := key
	if strings.HasPrefix(s, "(") {
		i := strings.Index(s, ")")
		recv := s[1:i]
		star := ""
		if strings.HasPrefix(recv, "*") {
			star = "*"
			recv = recv[1:]
		}
		j := strings.LastIndex(recv, "/")
		recv = recv[j+1:]
		k := strings.Index(recv, ".")
		return recv[:k] + ".(" + star + recv[k+1:] + ")" + s[i+1:]
	}
	j := strings.LastIndex(s, "/")
	return s[j+1:]
}

// verifyFunc generates the obligations of one function under its contract.
func (l *Loaded) verifyFunc(r *Runner, fn *ssa.Function, sp *FuncSpec) (res *FnResult) {
	res = &FnResult{Key: sp.Key, Spec: sp}
	r.curFn, r.curSpec, r.curName = fn, sp, shortFn(sp.Key)
	r.paths = 1
	r.work = nil
	r.obligs = nil
	r.histSigs = callSigsOf(fn)
	r.recorded = map[string]bool{}
	defer func() {
		// vacuity diagnostic: the contract talks about calls of X (calls / lastret / calledwith / ...),
		// but no call of X was recorded on any path -- such a clause says nothing (a misspelt callee, or
		// a callee that is inlined because it has no contract of its own)
		if res.Err != "" {
			return
		}
		for _, name := range historyNames(sp) {
			if !r.recorded[name] && !r.recorded[strings.TrimPrefix(name, "prev:")] {
				res.Vacuous = append(res.Vacuous, name)
			}
		}
	}()
	defer func() {
		res.Paths = r.paths
		if e := recover(); e != nil {
			if os.Getenv("GOVC_DEBUG") != "" {
				fmt.Fprintf(os.Stderr, "panic in %s: %v\n%s\n", sp.Key, e, debug.Stack())
			}
			switch x := e.(type) {
			case unsupportedErr:
				res.Err = x.Error()
			case specErr:
				res.Err = x.Error()
			case error:
				if _, ok := x.(unsupportedErr); ok {
					res.Err = x.Error()
				} else {
					res.Err = "internal: " + x.Error()
				}
			default:
				res.Err = fmt.Sprintf("internal: %v", e)
				if os.Getenv("GOVC_DEBUG") != "" {
					panic(e)
				}
			}
			res.Obligs = nil
			return
		}
		res.Obligs = r.obligs
	}()
	if len(fn.Blocks) == 0 {
		panic(unsupported("function has no body"))
	}
	// a loop contract must name a loop that exists (a removed loop takes its invariants with it: stale contract)
	if n := len(r.loops(fn).headers); true {
		for ord := range sp.Loops {
			if ord >= n {
				panic(specErr{fmt.Sprintf("contract has clauses for loop %d but the function has %d loop(s)", ord, n)})
			}
		}
	}
	if fn.Recover != nil && !sp.PanicOK {
		r.note("function has a recover block; panicking paths are not followed")
	}
	st := &State{heap: map[string]Term{}, cells: map[cellKey]Val{}, W: Sym("W0", SInt), held: map[string]string{},
		ghost: map[string]Term{}, defs: map[string]Term{}, nonnil: map[string]bool{}, boxes: map[string]Val{}, heldPlace: map[string]*Place{}}
	st.assume(Ge(st.W, IntLit(1000000)))
	st.W0 = st.W
	f := r.newFrame(fn, 0)
	f.spec = sp
	f.blk = fn.Blocks[0]
	st.frames = []*Frame{f}
	if len(sp.Formals) != len(fn.Params) {
		panic(specErr{fmt.Sprintf("contract %s has %d formals, function has %d parameters", sp.Key, len(sp.Formals), len(fn.Params))})
	}
	for i, p := range fn.Params {
		v := freshVal("p_"+p.Name(), p.Type())
		st.assumeRange(v)
		st.assumeLoadedRefs(v)
		if i == 0 && fn.Signature.Recv() != nil {
			if _, isPtr := p.Type().Underlying().(*types.Pointer); isPtr {
				st.assume(Ne(v.C[0], Zero))
				st.nonnil[v.C[0].S] = true
			}
		}
		f.regs[p] = v
		f.params = append(f.params, v)
	}
	for _, fv := range fn.FreeVars {
		v := freshVal("fv_"+fv.Name(), fv.Type())
		st.assumeRange(v)
		st.assumeLoadedRefs(v)
		st.assume(Ne(v.C[0], Zero))
		st.nonnil[v.C[0].S] = true
		f.regs[fv] = v
	}
	env := r.newEnv(st, fn.Pkg)
	for i, n := range sp.Formals {
		if n != "_" {
			env.vars[n] = f.params[i]
		}
	}
	// captured variables of a function literal are visible in its contract by name (entry values)
	f.fvEntry = map[string]Val{}
	for _, fv := range fn.FreeVars {
		cv := st.load(r.placeOf(f.regs[fv]))
		f.fvEntry[fv.Name()] = cv
		f.fvEntry[fv.Name()+"_ptr"] = f.regs[fv] // the variable itself (for modifies deref(x_ptr))
		env.vars[fv.Name()+"_ptr"] = f.regs[fv]
		if _, clash := env.vars[fv.Name()]; !clash {
			env.vars[fv.Name()] = cv
		}
	}
	for _, h := range sp.Holds {
		p := env.lockPlace(h)
		st.held[lockKey(p)] = "w"
		st.heldPlace[lockKey(p)] = p
		if owner, mu := r.lockOwner(p); owner != nil {
			if ts := r.typeSpecOf(owner.Root); ts != nil {
				for _, c := range ts.LockInv[mu] {
					e2 := r.newEnv(st, r.pkgByPath(ts.Pkg))
					e2.vars["self"] = Val{T: types.NewPointer(owner.Root), C: []Term{r.interiorID(st, owner)}, P: owner}
					st.assume(e2.EvalBool(c.E, st))
				}
			}
		}
	}
	for _, ax := range r.specs.Axioms {
		st.assume(r.newEnv(st, fn.Pkg).EvalBool(ax.E, st))
	}
	// declared representation invariants of pointer parameters (established by constructors; assumed here)
	for i, p := range fn.Params {
		pt, ok := p.Type().Underlying().(*types.Pointer)
		if !ok {
			continue
		}
		ts := r.typeSpecOf(pt.Elem())
		if ts == nil || len(ts.Invs) == 0 {
			continue
		}
		for _, c := range ts.Invs {
			e2 := r.newEnv(st, r.pkgByPath(ts.Pkg))
			e2.vars["self"] = f.params[i]
			st.assume(Implies(Ne(f.params[i].C[0], Zero), e2.EvalBool(c.E, st)))
			r.note("type invariant " + shortType(pt.Elem()) + "." + c.Label + " assumed for parameter " + p.Name())
		}
	}
	for _, c := range sp.Requires {
		st.assume(env.EvalBool(c.E, st))
	}
	f.entry = &entrySnap{heap: map[string]Term{}, W: st.W, ghost: map[string]Term{}}
	for k, v := range st.heap {
		f.entry.heap[k] = v
	}
	for k, v := range st.ghost {
		f.entry.ghost[k] = v
	}
	f.entryHeld = map[string]string{}
	for k, v := range st.held {
		f.entryHeld[k] = v
	}
	r.reach(st, "entry")
	r.work = append(r.work, st)
	r.csEvaluated = map[string]bool{}
	r.beforeHit = map[string]bool{}
	r.wantPostSnap = specMentions(sp, "mapsamesince(")
	r.run()
	for callee, cs := range sp.Before {
		for _, c := range cs {
			if !r.beforeHit[callee+"."+c.Label] {
				panic(specErr{"before clause [" + c.Label + "]: no call of a contracted function " + callee + " was reached"})
			}
		}
	}
	for _, c := range sp.CSEnsures {
		if !r.csEvaluated[c.Label] {
			panic(specErr{"critical-section clause [" + c.Label + "] could not be evaluated on any path (unresolved identifier or no lock released)"})
		}
	}
	return res
}

// verifyLemma turns a lemma block into one obligation.
func (l *Loaded) verifyLemma(r *Runner, lm *LemmaSpec) (res *FnResult) {
	res = &FnResult{Key: "lemma " + lm.Name, Spec: &FuncSpec{Key: "lemma " + lm.Name, Props: lm.Props}}
	r.curFn, r.curSpec, r.curName = nil, res.Spec, pkgShort(lm.Pkg)+".lemma."+lm.Name
	r.obligs = nil
	defer func() {
		if e := recover(); e != nil {
			res.Err = fmt.Sprintf("%v", e)
			res.Obligs = nil
			if os.Getenv("GOVC_DEBUG") != "" {
				panic(e)
			}
			return
		}
		res.Obligs = r.obligs
	}()
	st := &State{heap: map[string]Term{}, cells: map[cellKey]Val{}, W: Sym("W0", SInt), held: map[string]string{},
		ghost: map[string]Term{}, defs: map[string]Term{}, nonnil: map[string]bool{}, boxes: map[string]Val{}, heldPlace: map[string]*Place{}}
	st.assume(Ge(st.W, IntLit(1000000)))
	pkg := r.pkgByPath(lm.Pkg)
	env := r.newEnv(st, pkg)
	for _, v := range lm.Vars {
		t := l.resolveType(pkg, v.Type)
		if t == nil {
			panic(specErr{"lemma " + lm.Name + ": unknown type " + v.Type})
		}
		val := freshVal("lv_"+v.Name, t)
		st.assumeRange(val)
		st.assumeLoadedRefs(val)
		env.vars[v.Name] = val
	}
	for _, h := range lm.Hyps {
		st.assume(env.EvalBool(h.E, st))
	}
	for _, u := range lm.Uses {
		sp := r.specFor(u.Key)
		if sp == nil {
			panic(specErr{"lemma " + lm.Name + ": no contract for " + u.Key})
		}
		if len(u.Args) != len(sp.Formals) || len(u.Results) > len(sp.Results) {
			panic(specErr{"lemma " + lm.Name + ": arity mismatch in uses " + u.Key})
		}
		uenv := r.newEnv(st, r.specPkg(sp, nil))
		for i, a := range u.Args {
			v, ok := env.vars[a]
			if !ok {
				panic(specErr{"lemma " + lm.Name + ": unknown variable " + a})
			}
			if sp.Formals[i] != "_" {
				uenv.vars[sp.Formals[i]] = v
			}
		}
		for i, a := range u.Results {
			v, ok := env.vars[a]
			if !ok {
				panic(specErr{"lemma " + lm.Name + ": unknown variable " + a})
			}
			if sp.Results[i] != "_" {
				uenv.vars[sp.Results[i]] = v
			}
		}
		for _, c := range sp.Ensures {
			if strings.Contains(c.Src, "fresh(") || mentionsCallHistory(c.Src) {
				continue // allocation facts and call histories are meaningless in the single state of a lemma
			}
			st.assume(uenv.EvalBool(c.E, st))
		}
	}
	name := r.curName
	for _, gc := range lm.Goals {
		g := env.EvalBool(gc.E, st)
		n := name
		if gc.Label != "" {
			n += "[" + gc.Label + "]"
		}
		o := &Oblig{Name: n, Kind: "lemma", Fn: name, Goal: g, PC: st.fullPC(), Expect: "unsat", Props: lm.Props}
		if lm.Canary {
			// a canary must be REFUTED: it is recorded as an expect-sat check of the negated goal
			o.Kind = "canary"
			o.Expect = "sat"
		}
		r.obligs = append(r.obligs, o)
	}
	return res
}

func pkgShort(p string) string {
	if i := strings.LastIndex(p, "/"); i >= 0 {
		return p[i+1:]
	}
	return p
}

func (l *Loaded) resolveType(pkg *ssa.Package, name string) types.Type {
	ptr := 0
	for strings.HasPrefix(name, "*") {
		ptr++
		name = name[1:]
	}
	var t types.Type
	if strings.HasPrefix(name, "[]") {
		et := l.resolveType(pkg, name[2:])
		if et == nil {
			return nil
		}
		t = types.NewSlice(et)
	} else {
		for _, b := range types.Typ {
			if b.Name() == name {
				t = b
			}
		}
		if name == "byte" {
			t = types.Typ[types.Uint8]
		}
		if name == "error" {
			t = errorType
		}
		if t == nil && pkg != nil {
			if obj := pkg.Pkg.Scope().Lookup(name); obj != nil {
				t = obj.Type()
			}
		}
		if t == nil && strings.Contains(name, ".") && pkg != nil {
			parts := strings.SplitN(name, ".", 2)
			for _, imp := range pkg.Pkg.Imports() {
				if imp.Name() == parts[0] {
					if obj := imp.Scope().Lookup(parts[1]); obj != nil {
						t = obj.Type()
					}
				}
			}
		}
	}
	if t == nil {
		return nil
	}
	for i := 0; i < ptr; i++ {
		t = types.NewPointer(t)
	}
	return t
}

// selectSpecs returns the function contracts to verify for a property ("" = all), in file order.
// censusSpecs: for every `census T property ID` directive of the property, a lock-discipline-only contract
// for each method of T: the method's own contract if it has one (only its lockset obligations then count for
// the property unless it is tagged with it), otherwise a synthesised one with an unrestricted frame.
func (l *Loaded) censusSpecs(prop string, have map[string]bool) []*FuncSpec {
	var out []*FuncSpec
	for _, c := range l.specs.Census {
		if c.Prop != prop {
			continue
		}
		var keys []string
		for k, fn := range l.fns {
			if fn.Pkg == nil || fn.Pkg.Pkg.Path() != c.Pkg || fn.Signature.Recv() == nil || fn.Parent() != nil || len(fn.Blocks) == 0 {
				continue
			}
			rt := fn.Signature.Recv().Type()
			if p, ok := rt.(*types.Pointer); ok {
				rt = p.Elem()
			}
			n, ok := rt.(*types.Named)
			if !ok || n.Obj().Name() != c.Type {
				continue
			}
			keys = append(keys, k)
		}
		sort.Strings(keys)
		for _, k := range keys {
			if have[k] {
				continue
			}
			have[k] = true
			if sp, ok := l.specs.Funcs[k]; ok && !sp.Trusted {
				if sp.Opaque {
					continue
				}
				cp := *sp
				cp.CensusOnly = !contains(sp.Props, prop)
				cp.Props = append(append([]string{}, sp.Props...), prop)
				out = append(out, &cp)
				continue
			}
			fn := l.fns[k]
			sp := &FuncSpec{Key: k, RawName: fn.Name(), Props: []string{prop}, ModAll: true, Loops: map[int]*LoopSpec{}, File: c.File, Line: c.Line, Pkg: c.Pkg, CensusOnly: true, Synth: true}
			for range fn.Params {
				sp.Formals = append(sp.Formals, "_")
			}
			out = append(out, sp)
		}
	}
	return out
}

func (l *Loaded) selectSpecs(prop string, re *regexp.Regexp) []*FuncSpec {
	var out []*FuncSpec
	have := map[string]bool{}
	defer func() {}()
	for _, sp := range l.specs.Order {
		if sp.Trusted || sp.Opaque {
			continue
		}
		if prop != "" && !contains(sp.Props, prop) {
			continue
		}
		if re != nil && !re.MatchString(sp.Key) {
			continue
		}
		have[sp.Key] = true
		out = append(out, sp)
	}
	if prop != "" {
		for _, sp := range l.censusSpecs(prop, have) {
			if re != nil && !re.MatchString(sp.Key) {
				continue
			}
			out = append(out, sp)
		}
	}
	return out
}

func contains(xs []string, x string) bool {
	for _, y := range xs {
		if y == x {
			return true
		}
	}
	return false
}

// dirsForProp: the package directories that hold contracts tagged with the property.
func dirsForProp(prop string) []string {
	var out []string
	for _, d := range findContractDirs() {
		data, err := os.ReadFile(filepath.Join(d, contractFile))
		if err != nil {
			continue
		}
		if prop == "" {
			out = append(out, d)
			continue
		}
		for _, ln := range strings.Split(string(data), "\n") {
			t := strings.TrimSpace(ln)
			if strings.HasPrefix(t, "//@") && strings.Contains(t, "property") {
				for _, w := range strings.Fields(t) {
					if w == prop {
						out = append(out, d)
						goto next
					}
				}
			}
		}
	next:
	}
	// `//@ load <dir>` directives of the selected contract files: extra packages to load with source
	seen := map[string]bool{}
	for _, d := range out {
		seen[d] = true
	}
	for _, d := range append([]string{}, out...) {
		data, _ := os.ReadFile(filepath.Join(d, contractFile))
		for _, ln := range strings.Split(string(data), "\n") {
			t := strings.TrimSpace(ln)
			if strings.HasPrefix(t, "//@ load ") {
				x := filepath.Join(repoRoot, strings.TrimSpace(strings.TrimPrefix(t, "//@ load ")))
				if !seen[x] {
					seen[x] = true
					out = append(out, x)
				}
			}
		}
	}
	return out
}

// specMentions reports whether any clause of the contract contains the text.
func specMentions(sp *FuncSpec, what string) bool {
	for _, cs := range [][]Clause{sp.Requires, sp.Ensures, sp.CSEnsures, sp.Covers} {
		for _, c := range cs {
			if strings.Contains(c.Src, what) {
				return true
			}
		}
	}
	for _, cs := range sp.Before {
		for _, c := range cs {
			if strings.Contains(c.Src, what) {
				return true
			}
		}
	}
	return false
}

// callSigsOf maps the call-history name of every call instruction of fn (and of its anonymous
// functions) to the callee's signature.
func callSigsOf(fn *ssa.Function) map[string]*types.Signature {
	out := map[string]*types.Signature{}
	var walk func(f *ssa.Function)
	walk = func(f *ssa.Function) {
		for _, b := range f.Blocks {
			for _, in := range b.Instrs {
				ci, ok := in.(ssa.CallInstruction)
				if !ok {
					continue
				}
				c := ci.Common()
				if c.IsInvoke() {
					out[calleeShort("("+typeKey(c.Value.Type())+")."+c.Method.Name())] = c.Signature()
				} else if sc := c.StaticCallee(); sc != nil {
					out[calleeShort(sc.String())] = c.Signature()
				}
			}
		}
		for _, a := range f.AnonFuncs {
			walk(a)
		}
	}
	walk(fn)
	return out
}

var historyRE = regexp.MustCompile(`\b(?:calls|lastret|lastretb|calledwith|lastarg|argsat|mapsamesince)\("([^"]+)"`)

// historyNames lists the call-history names the function's own contract mentions.
func historyNames(sp *FuncSpec) []string {
	seen := map[string]bool{}
	var out []string
	add := func(src string) {
		for _, m := range historyRE.FindAllStringSubmatch(src, -1) {
			if !seen[m[1]] {
				seen[m[1]] = true
				out = append(out, m[1])
			}
		}
	}
	for _, cs := range [][]Clause{sp.Requires, sp.Ensures, sp.CSEnsures, sp.Covers} {
		for _, c := range cs {
			add(c.Src)
		}
	}
	for _, cs := range sp.Before {
		for _, c := range cs {
			add(c.Src)
		}
	}
	sort.Strings(out)
	return out
}

package main

// SMT terms: strings with a sort, light constant folding, and a global
// symbol registry used to emit declarations.

import (
	"fmt"
	"math/big"
	"sort"
	"strings"
	"sync"
)

type Sort string

const (
	SInt  Sort = "Int"
	SBool Sort = "Bool"
	SArr  Sort = "(Array Int Int)"
	SArrB Sort = "(Array Int Bool)"
)

func ArrOf(s Sort) Sort { return Sort("(Array Int " + string(s) + ")") }
func (s Sort) Elem() Sort {
	x := string(s)
	if strings.HasPrefix(x, "(Array Int ") {
		return Sort(x[len("(Array Int ") : len(x)-1])
	}
	return ""
}

type Term struct {
	S    string
	Sort Sort
}

func (t Term) String() string { return t.S }
func (t Term) IsZero() bool   { return t.S == "" }

var (
	symMu   sync.Mutex
	symTab  = map[string]string{} // name -> declaration text
	symCtr  = map[string]int{}
	funDecl = map[string]string{}
)

// Sym declares (idempotently) a constant of the given sort.
func Sym(name string, s Sort) Term {
	symMu.Lock()
	defer symMu.Unlock()
	if _, ok := symTab[name]; !ok {
		symTab[name] = fmt.Sprintf("(declare-fun %s () %s)", name, s)
	}
	return Term{name, s}
}

func sanitize(s string) string {
	var b strings.Builder
	for _, r := range s {
		switch {
		case r >= 'a' && r <= 'z', r >= 'A' && r <= 'Z', r >= '0' && r <= '9', r == '_', r == '.', r == '$':
			b.WriteRune(r)
		default:
			b.WriteByte('_')
		}
	}
	return b.String()
}

// Fresh returns a new constant whose name starts with hint.
func Fresh(hint string, s Sort) Term {
	hint = sanitize(hint)
	if len(hint) > 40 {
		hint = hint[:40]
	}
	symMu.Lock()
	symCtr[hint]++
	n := symCtr[hint]
	freshSeq++
	name := fmt.Sprintf("%s!%d", hint, n)
	symSeq[name] = freshSeq
	symMu.Unlock()
	return Sym(name, s)
}

var (
	freshSeq int
	symSeq   = map[string]int{} // creation order of fresh symbols
)

// curFreshSeq returns the number of fresh symbols created so far.
func curFreshSeq() int {
	symMu.Lock()
	defer symMu.Unlock()
	return freshSeq
}

// newestSymIn returns the largest creation sequence number of the fresh symbols occurring in text.
func newestSymIn(text string) int {
	mx := 0
	symMu.Lock()
	defer symMu.Unlock()
	i, n := 0, len(text)
	for i < n {
		c := text[i]
		if c == '(' || c == ')' || c == ' ' {
			i++
			continue
		}
		j := i
		for j < n && text[j] != '(' && text[j] != ')' && text[j] != ' ' {
			j++
		}
		if s, ok := symSeq[text[i:j]]; ok && s > mx {
			mx = s
		}
		i = j
	}
	return mx
}

// Func declares an uninterpreted function.
func Func(name string, args []Sort, res Sort) string {
	symMu.Lock()
	defer symMu.Unlock()
	name = sanitize(name)
	if _, ok := symTab[name]; !ok {
		as := make([]string, len(args))
		for i, a := range args {
			as[i] = string(a)
		}
		symTab[name] = fmt.Sprintf("(declare-fun %s (%s) %s)", name, strings.Join(as, " "), res)
	}
	return name
}

func App(fn string, res Sort, args ...Term) Term {
	if len(args) == 0 {
		return Term{fn, res}
	}
	var b strings.Builder
	b.WriteByte('(')
	b.WriteString(fn)
	for _, a := range args {
		b.WriteByte(' ')
		b.WriteString(a.S)
	}
	b.WriteByte(')')
	return Term{b.String(), res}
}

func IntLit(n int64) Term { return BigLit(big.NewInt(n)) }
func BigLit(n *big.Int) Term {
	if n.Sign() < 0 {
		return Term{"(- " + new(big.Int).Neg(n).String() + ")", SInt}
	}
	return Term{n.String(), SInt}
}

func litVal(t Term) (*big.Int, bool) {
	s := t.S
	if s == "" {
		return nil, false
	}
	neg := false
	if strings.HasPrefix(s, "(- ") && strings.HasSuffix(s, ")") {
		s = s[3 : len(s)-1]
		neg = true
	}
	for _, c := range s {
		if c < '0' || c > '9' {
			return nil, false
		}
	}
	n, ok := new(big.Int).SetString(s, 10)
	if !ok {
		return nil, false
	}
	if neg {
		n.Neg(n)
	}
	return n, true
}

var (
	True  = Term{"true", SBool}
	False = Term{"false", SBool}
	Zero  = IntLit(0)
	One   = IntLit(1)
)

func BoolLit(b bool) Term {
	if b {
		return True
	}
	return False
}

func Add(a, b Term) Term {
	if x, ok := litVal(a); ok {
		if y, ok := litVal(b); ok {
			return BigLit(new(big.Int).Add(x, y))
		}
		if x.Sign() == 0 {
			return b
		}
	}
	if y, ok := litVal(b); ok && y.Sign() == 0 {
		return a
	}
	return App("+", SInt, a, b)
}
func Sub(a, b Term) Term {
	if y, ok := litVal(b); ok {
		if x, ok := litVal(a); ok {
			return BigLit(new(big.Int).Sub(x, y))
		}
		if y.Sign() == 0 {
			return a
		}
	}
	if a.S == b.S {
		return Zero
	}
	return App("-", SInt, a, b)
}
func Mul(a, b Term) Term {
	if x, ok := litVal(a); ok {
		if y, ok := litVal(b); ok {
			return BigLit(new(big.Int).Mul(x, y))
		}
		if x.Sign() == 0 {
			return Zero
		}
		if x.Cmp(big.NewInt(1)) == 0 {
			return b
		}
	}
	if y, ok := litVal(b); ok {
		if y.Sign() == 0 {
			return Zero
		}
		if y.Cmp(big.NewInt(1)) == 0 {
			return a
		}
	}
	return App("*", SInt, a, b)
}
func Neg(a Term) Term { return Sub(Zero, a) }

// Euclidean div/mod as in SMT-LIB (used for unsigned / non-negative values).
func Div(a, b Term) Term {
	if x, ok := litVal(a); ok {
		if y, ok := litVal(b); ok && y.Sign() > 0 && x.Sign() >= 0 {
			return BigLit(new(big.Int).Div(x, y))
		}
	}
	return App("div", SInt, a, b)
}
func Mod(a, b Term) Term {
	if x, ok := litVal(a); ok {
		if y, ok := litVal(b); ok && y.Sign() > 0 {
			return BigLit(new(big.Int).Mod(x, y))
		}
	}
	return App("mod", SInt, a, b)
}

func cmpFold(op string, a, b Term) (Term, bool) {
	x, ok1 := litVal(a)
	y, ok2 := litVal(b)
	if !ok1 || !ok2 {
		return Term{}, false
	}
	c := x.Cmp(y)
	switch op {
	case "<":
		return BoolLit(c < 0), true
	case "<=":
		return BoolLit(c <= 0), true
	case ">":
		return BoolLit(c > 0), true
	case ">=":
		return BoolLit(c >= 0), true
	case "=":
		return BoolLit(c == 0), true
	}
	return Term{}, false
}
func Lt(a, b Term) Term {
	if t, ok := cmpFold("<", a, b); ok {
		return t
	}
	return App("<", SBool, a, b)
}
func Le(a, b Term) Term {
	if t, ok := cmpFold("<=", a, b); ok {
		return t
	}
	return App("<=", SBool, a, b)
}
func Gt(a, b Term) Term { return Lt(b, a) }
func Ge(a, b Term) Term { return Le(b, a) }
func Eq(a, b Term) Term {
	if a.S == b.S {
		return True
	}
	if a.Sort == SInt {
		if t, ok := cmpFold("=", a, b); ok {
			return t
		}
	}
	if a.Sort == SBool {
		if b.S == "true" {
			return a
		}
		if a.S == "true" {
			return b
		}
		if b.S == "false" {
			return Not(a)
		}
		if a.S == "false" {
			return Not(b)
		}
	}
	return App("=", SBool, a, b)
}
func Ne(a, b Term) Term { return Not(Eq(a, b)) }
func Not(a Term) Term {
	switch a.S {
	case "true":
		return False
	case "false":
		return True
	}
	if strings.HasPrefix(a.S, "(not ") {
		return Term{a.S[5 : len(a.S)-1], SBool}
	}
	return App("not", SBool, a)
}
func And(ts ...Term) Term {
	var out []Term
	for _, t := range ts {
		if t.S == "true" {
			continue
		}
		if t.S == "false" {
			return False
		}
		out = append(out, t)
	}
	switch len(out) {
	case 0:
		return True
	case 1:
		return out[0]
	}
	return App("and", SBool, out...)
}
func Or(ts ...Term) Term {
	var out []Term
	for _, t := range ts {
		if t.S == "false" {
			continue
		}
		if t.S == "true" {
			return True
		}
		out = append(out, t)
	}
	switch len(out) {
	case 0:
		return False
	case 1:
		return out[0]
	}
	return App("or", SBool, out...)
}
func Implies(a, b Term) Term {
	if a.S == "true" {
		return b
	}
	if a.S == "false" || b.S == "true" {
		return True
	}
	return App("=>", SBool, a, b)
}
func Ite(c, a, b Term) Term {
	if c.S == "true" {
		return a
	}
	if c.S == "false" {
		return b
	}
	if a.S == b.S {
		return a
	}
	return App("ite", a.Sort, c, a, b)
}
func Select(arr, i Term) Term {
	// read-over-write with syntactically identical (or distinct literal) indices
	for len(arr.S) < 4000 && strings.HasPrefix(arr.S, "(store ") {
		args := topArgs(arr.S)
		if len(args) != 4 {
			break
		}
		if args[2] == i.S {
			return Term{args[3], arr.Sort.Elem()}
		}
		_, l1 := litVal(Term{args[2], SInt})
		_, l2 := litVal(i)
		if l1 && l2 {
			arr = Term{args[1], arr.Sort}
			continue
		}
		break
	}
	return App("select", arr.Sort.Elem(), arr, i)
}

// topArgs splits "(f a b c)" into ["f","a","b","c"] at nesting depth one.
func topArgs(s string) []string {
	var out []string
	depth := 0
	start := -1
	for k := 0; k < len(s); k++ {
		c := s[k]
		switch {
		case c == '(':
			if depth == 1 && start < 0 {
				start = k
			}
			depth++
		case c == ')':
			depth--
			if depth == 1 && start >= 0 {
				out = append(out, s[start:k+1])
				start = -1
			}
			if depth == 0 && start >= 0 {
				out = append(out, s[start:k])
				start = -1
			}
		case c == ' ':
			if depth == 1 && start >= 0 {
				out = append(out, s[start:k])
				start = -1
			}
		default:
			if depth == 1 && start < 0 {
				start = k
			}
		}
	}
	return out
}
func Store(arr, i, v Term) Term { return App("store", arr.Sort, arr, i, v) }

// Forall over integer-sorted bound variables.
func Forall(vars []Term, body Term) Term {
	if body.S == "true" {
		return True
	}
	var b strings.Builder
	b.WriteString("(forall (")
	for _, v := range vars {
		fmt.Fprintf(&b, "(%s %s)", v.S, v.Sort)
	}
	b.WriteString(") ")
	b.WriteString(body.S)
	b.WriteString(")")
	return Term{b.String(), SBool}
}
func Exists(vars []Term, body Term) Term {
	var b strings.Builder
	b.WriteString("(exists (")
	for _, v := range vars {
		fmt.Fprintf(&b, "(%s %s)", v.S, v.Sort)
	}
	b.WriteString(") ")
	b.WriteString(body.S)
	b.WriteString(")")
	return Term{b.String(), SBool}
}

var bvCtr int

// BoundVar returns a bound variable name (not declared globally).
func BoundVar(hint string) Term {
	symMu.Lock()
	bvCtr++
	n := bvCtr
	symMu.Unlock()
	return Term{fmt.Sprintf("%s?%d", sanitize(hint), n), SInt}
}

// declsFor returns the declarations of all registered symbols that occur in text.
func declsFor(text string) []string {
	seen := map[string]bool{}
	var out []string
	symMu.Lock()
	defer symMu.Unlock()
	i := 0
	n := len(text)
	for i < n {
		c := text[i]
		if c == '(' || c == ')' || c == ' ' || c == '\n' || c == '\t' {
			i++
			continue
		}
		j := i
		for j < n {
			d := text[j]
			if d == '(' || d == ')' || d == ' ' || d == '\n' || d == '\t' {
				break
			}
			j++
		}
		tok := text[i:j]
		i = j
		if seen[tok] {
			continue
		}
		seen[tok] = true
		if d, ok := symTab[tok]; ok {
			out = append(out, d)
		}
	}
	sort.Strings(out)
	return out
}

func pow2(k uint) *big.Int { return new(big.Int).Lsh(big.NewInt(1), k) }

package main

// Calls: builtins, contracts (modular), inlining, havoc; function exit checks.

import (
	"os"
	"fmt"
	"go/token"
	"go/types"
	"sort"
	"strings"

	"golang.org/x/tools/go/ssa"
)

func (r *Runner) execCall(st *State, f *Frame, res *ssa.Call, common *ssa.CallCommon, in ssa.Instruction) {
	var fnv Val
	if _, isB := common.Value.(*ssa.Builtin); !isB {
		fnv = r.operand(st, common.Value)
	}
	args := make([]Val, len(common.Args))
	for i, a := range common.Args {
		args[i] = r.operand(st, a)
	}
	var rv ssa.Value
	if res != nil {
		rv = res
	}
	r.execCallVals(st, f, common, fnv, args, rv, in)
}

func (r *Runner) setRes(f *Frame, res ssa.Value, v Val) {
	if res != nil {
		f.regs[res] = v
	}
}

func (r *Runner) specFor(key string) *FuncSpec {
	if s, ok := r.specs.Funcs[key]; ok {
		return s
	}
	return nil
}

func (r *Runner) onStack(st *State, fn *ssa.Function) bool {
	for _, fr := range st.frames {
		if fr.fn == fn {
			return true
		}
	}
	return false
}

func (r *Runner) execCallVals(st *State, f *Frame, common *ssa.CallCommon, fnv Val, args []Val, res ssa.Value, in ssa.Instruction) {
	pos := in.Pos()
	if b, ok := common.Value.(*ssa.Builtin); ok {
		r.builtin(st, f, b, common, args, res, pos)
		return
	}
	var callee *ssa.Function
	var bindings []Val
	if common.IsInvoke() {
		recv := fnv
		if recv.Lk != nil {
			// sync.Locker known (by a `cond F on M` declaration) to be a specific mutex
			switch common.Method.Name() {
			case "Lock":
				r.lockAcquire(st, recv.Lk, "w", pos)
				return
			case "RLock":
				r.lockAcquire(st, recv.Lk, "r", pos)
				return
			case "Unlock", "RUnlock":
				r.lockRelease(st, recv.Lk, pos, common.Method.Name() == "RUnlock")
				return
			}
		}
		r.panicCheck(st, "nil", exprText(f.fn, common.Value)+"."+common.Method.Name(), Ne(recv.C[0], Zero), pos)
		// dynamic type known?
		if n, ok := litVal(recv.C[0]); ok && n.IsInt64() {
			if ct, ok2 := typeTagRev[n.Int64()]; ok2 {
				if m := r.prog.LookupMethod(ct, common.Method.Pkg(), common.Method.Name()); m != nil {
					callee = m
					rv := Val{T: ct, C: []Term{recv.C[1]}, P: recv.P}
					if bv, has := st.boxes[recv.C[1].S]; has {
						rv = bv
					}
					args = append([]Val{rv}, args...)
				}
			}
		}
		if callee == nil {
			key := "(" + typeKey(common.Value.Type()) + ")." + common.Method.Name()
			if sp := r.specFor(key); sp != nil {
				pure := r.pureIfaceMethod(typeKey(common.Value.Type()), common.Method.Name())
				if !pure {
					r.bumpIfaceVersion(st, typeKey(common.Value.Type()), recv)
				}
				// a read-only accessor that also has an assumed contract: its result is the same value
				// icall("Method", recv, ...) denotes in contracts
				var pv Val
				linked := pure && res != nil && common.Signature().Results().Len() == 1
				if linked {
					pv = r.pureIfaceResult(st, typeKey(common.Value.Type()), common.Method.Name(), recv, args, common.Signature().Results().At(0).Type())
				}
				r.contractCall(st, f, sp, nil, common.Signature(), append([]Val{recv}, args...), res, pos)
				if linked {
					if got, ok := f.regs[res]; ok && len(got.C) == len(pv.C) {
						for i := range got.C {
							st.assume(Eq(got.C[i], pv.C[i]))
						}
					}
				}
				return
			}
			if r.pureIfaceMethod(typeKey(common.Value.Type()), common.Method.Name()) {
				r.pureIfaceCall(st, f, typeKey(common.Value.Type()), common.Method.Name(), recv, args, res)
				return
			}
			if isPureExternal(key) {
				r.havocCall(st, f, common.Signature(), nil, res, key, false)
				return
			}
			// a method that may mutate the object: later reads through pure accessors see a new version
			r.bumpIfaceVersion(st, typeKey(common.Value.Type()), recv)
			r.note("interface call havocked: " + key)
			r.havocCall(st, f, common.Signature(), append([]Val{recv}, args...), res, key, true)
			return
		}
	} else {
		callee = common.StaticCallee()
		if callee == nil && fnv.Clo != nil && fnv.Clo.Fn != nil {
			callee = fnv.Clo.Fn
		}
		if fnv.Clo != nil && fnv.Clo.Fn == callee {
			bindings = fnv.Clo.Bindings
		}
	}
	if callee == nil {
		if r.funcParamCall(st, f, fnv, common, args, res, pos) {
			return
		}
		r.note("call of unknown function value havocked")
		r.havocCall(st, f, common.Signature(), args, res, "funcvalue", false)
		return
	}
	key := callee.String()
	if callee.Origin() != nil {
		key = callee.Origin().String()
	}
	if r.model(st, f, key, callee, args, res, pos, in) {
		return
	}
	sp := r.specFor(key)
	if sp != nil && !sp.Inline {
		r.contractCall(st, f, sp, callee, callee.Signature, args, res, pos)
		return
	}
	if len(callee.Blocks) > 0 && f.depth < r.maxInl && !r.onStack(st, callee) {
		nf := r.newFrame(callee, f.depth+1)
		nf.callIn = in
		if res == nil {
			nf.callIn = nil
		}
		nf.spec = sp
		for i, p := range callee.Params {
			if i < len(args) {
				nf.regs[p] = args[i]
			}
		}
		for i, fv := range callee.FreeVars {
			if i < len(bindings) {
				nf.regs[fv] = bindings[i]
			} else {
				panic(unsupported("closure without bindings: " + key))
			}
		}
		nf.blk = callee.Blocks[0]
		st.frames = append(st.frames, nf)
		r.runInlined(st, len(st.frames)-2)
		return
	}
	if isPureExternal(key) {
		r.havocCall(st, f, callee.Signature, args, res, key, false)
		return
	}
	r.note("call havocked (no contract, not inlinable): " + key)
	r.havocCall(st, f, callee.Signature, args, res, key, len(callee.Blocks) > 0 || !isPureExternal(key))
}

// afterInline is called when an inlined frame has returned.
func (r *Runner) afterInline(st *State, done *Frame) {}

var purePkgs = []string{"fmt.", "log.", "log/slog.", "errors.", "strings.", "strconv.", "math.", "math/bits.", "unicode.", "unicode/utf8.",
	"time.", "(time.", "(*time.", "path.", "path/filepath.", "bytes.Equal", "bytes.Compare", "bytes.HasPrefix", "sort.Search", "(*log/slog.", "(log/slog.",
	"hash/crc32.", "github.com/cespare/xxhash", "(*strings.Builder)", "os.Getenv", "runtime.", "(*sync/atomic.", "sync/atomic.",
	"github.com/hydraide/hydraide/app/panichandler.", "(*github.com/hydraide/hydraide/app/core/hydra/stats", "context.", "(context.",
	"google.golang.org/grpc/status.", "google.golang.org/grpc/codes.", "runtime/debug.", "(error).Error", "(*google.golang.org/grpc/status.",
	"google.golang.org/protobuf/types/known/timestamppb.", "(*google.golang.org/protobuf/types/known/timestamppb."}

func isPureExternal(key string) bool {
	for _, p := range purePkgs {
		if strings.HasPrefix(key, p) {
			return true
		}
	}
	return false
}

// havocCall: unknown callee. Result is arbitrary; memory reachable from the
// arguments (one level) is havocked; if deep is true every heap is havocked.
func (r *Runner) havocCall(st *State, f *Frame, sig *types.Signature, args []Val, res ssa.Value, what string, deep bool) {
	r.noteLeaks(st, args)
	if deep {
		r.havocAllHeaps(st)
	} else {
		for _, a := range args {
			r.havocReachable(st, a)
		}
	}
	st.bumpW()
	if res != nil {
		out := freshVal("ret", res.Type())
		st.assumeRange(out)
		st.assumeLoadedRefs(out)
		f.regs[res] = out
	}
}

// privateCells: heap-allocated locals of the active frames that only this function and its (so far unleaked)
// function literals can reach: variables captured by a closure. Unknown code cannot name them unless a closure
// that binds them was handed out (argument of a non-inlined call, stored to memory): see noteLeaks.
func (r *Runner) privateCells(st *State) []*Place {
	var out []*Place
	if st.leakAll {
		return nil
	}
	for _, f := range st.frames {
		for _, a := range heapAllocsOf(f.fn) {
			if os.Getenv("GOVC_DEBUG_PRIV") != "" && a.Heap {
				_, has := f.regs[a]
				fmt.Fprintf(os.Stderr, "priv? %s heap=%v leaked=%v closureOnly=%v hasreg=%v\n", a.Comment, a.Heap, st.leaked[a], closureOnly(a), has)
			}
			if !a.Heap || st.leaked[a] || !closureOnly(a) {
				continue
			}
			pv, ok := f.regs[a]
			if !ok {
				continue
			}
			if p := r.placeOf(pv); p != nil && p.Kind == PObj {
				out = append(out, p)
			}
		}
	}
	return out
}

var closureOnlyCache = map[*ssa.Alloc]bool{}

// closureOnly: every use of the variable's address is a load, a store INTO it, or a capture by a function literal.
func closureOnly(a *ssa.Alloc) bool {
	symMu.Lock()
	if v, ok := closureOnlyCache[a]; ok {
		symMu.Unlock()
		return v
	}
	symMu.Unlock()
	ok := true
	if a.Referrers() != nil {
		for _, u := range *a.Referrers() {
			switch x := u.(type) {
			case *ssa.Store:
				if x.Addr != ssa.Value(a) {
					ok = false // the address itself is stored somewhere
				}
			case *ssa.UnOp, *ssa.DebugRef, *ssa.MakeClosure:
			default:
				ok = false
			}
		}
	}
	symMu.Lock()
	closureOnlyCache[a] = ok
	symMu.Unlock()
	return ok
}

// noteLeaks: a function literal handed to code that is not executed symbolically here may be kept and called
// later; from now on the variables it captures are shared.
func (r *Runner) noteLeaks(st *State, vals []Val) {
	for _, v := range vals {
		if v.Clo == nil || v.Clo.Fn == nil {
			continue
		}
		for i, fv := range v.Clo.Fn.FreeVars {
			_ = fv
			if i >= len(v.Clo.Bindings) {
				break
			}
			for _, f := range st.frames {
				for _, a := range heapAllocsOf(f.fn) {
					if pv, ok := f.regs[a]; ok && a.Heap && len(pv.C) == 1 && len(v.Clo.Bindings[i].C) == 1 && pv.C[0].S == v.Clo.Bindings[i].C[0].S {
						if st.leaked == nil {
							st.leaked = map[*ssa.Alloc]bool{}
						}
						st.leaked[a] = true
					}
				}
			}
		}
	}
}

func (r *Runner) havocAllHeaps(st *State) {
	type keep struct {
		p *Place
		v Val
	}
	var kept []keep
	for _, p := range r.privateCells(st) {
		kept = append(kept, keep{p, st.load(p)})
	}
	defer func() {
		for _, k := range kept {
			st.store(k.p, k.v)
		}
	}()
	keys := make([]string, 0, len(st.heap))
	for k := range st.heap {
		keys = append(keys, k)
	}
	sort.Strings(keys)
	for _, k := range keys {
		t := st.heap[k]
		st.heap[k] = Fresh("hv_"+k, t.Sort)
		st.logWrite(k, Term{"*", SInt})
	}
	// keys not yet touched get fresh initial symbols on first use: mark epoch
	st.epoch++
	for k := range st.ghost {
		if strings.HasPrefix(k, "closed:") {
			st.ghost[k] = Fresh("closed", SBool)
		}
		if strings.HasPrefix(k, "spec:") {
			st.ghost[k] = Fresh("ghost", SInt)
		}
	}
}

func (r *Runner) havocReachable(st *State, a Val) {
	if a.T == nil {
		return
	}
	switch t := a.T.Underlying().(type) {
	case *types.Slice:
		et := t.Elem()
		for k, l := range layout(et) {
			old := st.backingArr(a, et, k)
			st.setBackingArr(a, et, k, Fresh("hv_arr", old.Sort))
			_ = l
		}
		st.logWrite("M|"+typeKey(et), a.C[0])
	case *types.Pointer:
		if _, isStruct := t.Elem().Underlying().(*types.Struct); isStruct || true {
			p := r.placeOf(a)
			if p.Kind == PObj && len(layout(t.Elem())) > 0 {
				nv := freshVal("hv_obj", t.Elem())
				st.assumeRange(nv)
				st.store(p, nv)
			} else if p.Kind == PCell {
				nv := freshVal("hv_cell", t.Elem())
				st.assumeRange(nv)
				st.store(p, nv)
			}
		}
	}
}

// ---------- contracts at call sites ----------

func (r *Runner) shadow(st *State) *State {
	o := &State{W: st.W, pc: nil, epoch: st.epoch}
	o.heap = make(map[string]Term, len(st.heap))
	for k, v := range st.heap {
		o.heap[k] = v
	}
	o.cells = make(map[cellKey]Val, len(st.cells))
	for k, v := range st.cells {
		o.cells[k] = v
	}
	o.ghost = make(map[string]Term, len(st.ghost))
	for k, v := range st.ghost {
		o.ghost[k] = v
	}
	o.held = st.held
	o.defs = map[string]Term{}
	o.nonnil = map[string]bool{}
	o.boxes = st.boxes
	o.frames = st.frames
	o.isShadow = true
	return o
}

func calleeShort(key string) string {
	// (*pkg/path.T).M -> T.M ; pkg/path.F -> F
	s := key
	s = strings.TrimPrefix(s, "(")
	s = strings.Replace(s, ")", "", 1)
	s = strings.TrimPrefix(s, "*")
	if i := strings.LastIndex(s, "/"); i >= 0 {
		s = s[i+1:]
	}
	if i := strings.Index(s, "."); i >= 0 {
		s = s[i+1:]
	}
	return s
}

func (r *Runner) specPkg(sp *FuncSpec, fallback *ssa.Function) *ssa.Package {
	if sp != nil && sp.Pkg != "" {
		for _, p := range r.prog.AllPackages() {
			if p.Pkg.Path() == sp.Pkg {
				return p
			}
		}
	}
	if fallback != nil {
		return fallback.Pkg
	}
	return nil
}

func (r *Runner) contractCall(st *State, f *Frame, sp *FuncSpec, callee *ssa.Function, sig *types.Signature, args []Val, res ssa.Value, pos token.Pos) {
	if len(sp.Formals) != len(args) {
		panic(specErr{fmt.Sprintf("contract %s has %d formals, call has %d arguments", sp.Key, len(sp.Formals), len(args))})
	}
	env := r.newEnv(st, r.specPkg(sp, callee))
	for i, n := range sp.Formals {
		if n != "_" {
			env.vars[n] = args[i]
		}
	}
	short := calleeShort(sp.Key)
	for _, c := range sp.Requires {
		g := env.EvalBool(c.E, st)
		r.oblige(st, "pre", short+"."+c.Label, g, pos)
	}
	// (a callee's contract can only speak of a closure it was given through its own clauses; handing one over
	// means its captured variables may change whenever the callee's frame says `modifies *`)
	r.noteLeaks(st, args)
	for _, h := range sp.Holds {
		p := env.lockPlace(h)
		if _, ok := st.held[lockKey(p)]; !ok {
			r.oblige(st, "lockset", short+" requires lock", False, pos)
		}
	}
	// call-site assertions of the calling function (before CALLEE [label] expr), in the caller's scope;
	// arg0, arg1, ... name the arguments of this call
	if f.spec != nil && r.quiet == 0 {
		if cs := f.spec.Before[short]; len(cs) > 0 {
			cenv := r.loopEnv(st, f)
			for i := range args {
				cenv.vars[fmt.Sprintf("arg%d", i)] = args[i]
			}
			for _, c := range cs {
				g := cenv.EvalBool(c.E, st)
				r.oblige(st, "before", short+"."+c.Label, g, pos)
				r.beforeHit[short+"."+c.Label] = true
			}
		}
	}
	pre := r.shadow(st)
	// the callee may allocate: the watermark moves BEFORE the frame is havocked, so that a havocked
	// reference may be one the callee allocated (fresh(x) in its postcondition: pre.W < x <= st.W)
	var tgts []ModTarget
	for _, m := range sp.Modifies {
		tgts = append(tgts, env.evalModSafe(m))
	}
	st.bumpW()
	// havoc the frame
	if sp.ModAll {
		r.havocAllHeaps(st)
	}
	for _, tgt := range tgts {
		r.havocTarget(st, tgt)
	}
	if sp.Yields {
		r.yield(st)
	}
	// results
	var results []Val
	rt := sig.Results()
	for i := 0; i < rt.Len(); i++ {
		v := freshVal("r_"+short, rt.At(i).Type())
		st.assumeRange(v)
		st.assumeLoadedRefs(v)
		results = append(results, v)
	}
	if len(sp.Results) > len(results) {
		panic(specErr{fmt.Sprintf("contract %s names %d results, function has %d", sp.Key, len(sp.Results), len(results))})
	}
	for i, n := range sp.Results {
		if n != "_" {
			env.vars[n] = results[i]
		}
	}
	env.old = pre
	for _, c := range sp.Ensures {
		// calls()/calledwith()/lastret()... count the calls made directly by the body of the function UNDER
		// VERIFICATION; a callee's postcondition about its own call history says nothing in the caller's
		// history and must not be assumed here (it would contradict the caller's counters)
		// Such sub-terms are replaced by fresh unconstrained values (the clause is weakened to its existential
		// closure over them, which the callee's proof implies); if the clause cannot be evaluated that way it
		// is not assumed at all.
		hist := mentionsCallHistory(c.Src)
		func() {
			defer func() {
				if e := recover(); e != nil {
					if se, ok := e.(specErr); ok {
						if hist {
							return
						}
						panic(specErr{fmt.Sprintf("%s (in ensures[%s] of %s at a call site)", se.msg, c.Label, sp.Key)})
					}
					panic(e)
				}
			}()
			env.callSite = hist
			g := env.EvalBool(c.E, nil)
			facts := env.facts
			env.callSite = false
			st.assume(facts...)
			st.assume(g)
		}()
		env.callSite = false
	}
	for _, a := range sp.Acquires {
		p := env.lockPlace(a)
		r.lockAcquire(st, p, "w", pos)
	}
	for _, a := range sp.Releases {
		p := env.lockPlace(a)
		r.lockRelease(st, p, pos, false)
	}
	if res != nil {
		f.regs[res] = packResults(res.Type(), results)
	}
	// call history ghost: counter and last arguments/results, for calls()/calledwith()/lastret() in contracts
	if st.lastCall == nil {
		st.lastCall = map[string]callRec{}
	}
	if prev, had := st.lastCall[short]; had {
		st.lastCall["prev:"+short] = prev // the call before the most recent one
	}
	rec := callRec{args: args, rets: results}
	if r.wantPostSnap {
		rec.post = r.shadow(st) // state right after the call, for mapsamesince()
	}
	st.lastCall[short] = rec
	if r.recorded != nil {
		r.recorded[short] = true
	}
	st.ghost["calls:"+short] = st.define("calls", Add(r.callsTerm(st, short), One))
}

type callRec struct {
	post  *State // snapshot right after the call (only when the contract under verification uses mapsamesince)
	args  []Val
	rets  []Val
	valid Term // Bool: the record describes a call that happened on this path (zero value = true)
}

func (c callRec) validTerm() Term {
	if c.valid.IsZero() {
		return True
	}
	return c.valid
}

// callsTerm: number of calls of the contracted callee `short` made so far (ghost).
func (r *Runner) callsTerm(st *State, short string) Term {
	if t, ok := st.ghost["calls:"+short]; ok {
		return t
	}
	t := Sym("calls_"+sanitize(short)+"@entry", SInt) // never havocked: counts calls made by this body
	st.ghost["calls:"+short] = t
	return t
}

func (r *Runner) havocTarget(st *State, t ModTarget) {
	switch {
	case t.Ghost != "":
		st.ghost["spec:"+t.Ghost] = Fresh("ghost_"+t.Ghost, SInt)
	case t.File != nil:
		ref := fileRef(*t.File)
		comps := []string{"pos"}
		if !t.FilePosOnly {
			comps = []string{"content", "len", "pos", "synced"}
		}
		for _, c := range comps {
			h := fileHeap(st, c)
			var nv Term
			if c == "content" {
				nv = Fresh("fcontent", SArr)
			} else {
				nv = Fresh("f"+c, SInt)
				st.assume(Le(Zero, nv))
			}
			st.rawHeapSet("F|"+c, "File_"+c, h.Sort, Store(h, ref, nv))
			st.logWrite("F|"+c, ref)
		}
	case t.Chans:
		r.closedHeap(st)
		st.heap["CH|closed"] = Fresh("ChanClosed", SArrB)
		st.logWrite("CH|closed", Term{"*", SInt})
	case t.Arrays != nil:
		for _, l := range layout(t.Arrays) {
			old := st.heapGet("M", t.Arrays, l)
			st.heap[heapKey("M", t.Arrays, l)] = Fresh("hvarr", old.Sort)
			st.logWrite(heapKey("M", t.Arrays, l), Term{"*", SInt})
		}
	case t.Place != nil:
		ty, _, _ := t.Place.typeAt()
		nv := freshVal("mod", ty)
		st.assumeRange(nv)
		st.assumeLoadedRefs(nv)
		st.store(t.Place, nv)
	case t.Slice != nil:
		et := elemOf(t.Slice.T)
		for k, lf := range layout(et) {
			old := st.backingArr(*t.Slice, et, k)
			if n, ok := litVal(Sub(t.Hi, t.Lo)); ok && n.IsInt64() && n.Int64() <= 16 && (lf.Sort == SInt || lf.Sort == SBool) {
				// small literal range: quantifier-free update with fresh elements
				na := old
				for i := int64(0); i < n.Int64(); i++ {
					ev := Val{T: lf.GoT, C: []Term{Fresh("model", lf.Sort)}}
					if len(layout(et)) == 1 {
						st.assumeRange(Val{T: et, C: ev.C})
					}
					na = Store(na, Add(Add(t.Slice.C[1], t.Lo), IntLit(i)), ev.C[0])
				}
				st.setBackingArr(*t.Slice, et, k, na)
				continue
			}
			na := Fresh("modarr", old.Sort)
			j := BoundVar("j")
			lo, hi := Add(t.Slice.C[1], t.Lo), Add(t.Slice.C[1], t.Hi)
			st.assume(Forall([]Term{j}, Implies(Or(Lt(j, lo), Ge(j, hi)), Eq(Select(na, j), Select(old, j)))))
			st.setBackingArr(*t.Slice, et, k, na)
		}
	case t.Map != nil:
		r.mapHavoc(st, *t.Map)
	}
}

// ---------- function entry / exit ----------

func (r *Runner) initialHeapTerm(entry *entrySnap, key string) Term {
	if t, ok := entry.heap[key]; ok {
		return t
	}
	info := rawHeapInfo[key]
	return Sym(info.sym+"@0", info.sort)
}

func (r *Runner) finish(st *State, f *Frame, rv []Val, pos token.Pos) {
	if r.specRec != nil {
		return // a path that returns does not reach the loop head again
	}
	sp := f.spec
	if sp == nil {
		return
	}
	r.reach(st, "return")
	env := r.newEnv(st, f.fn.Pkg)
	for i, n := range sp.Formals {
		if n != "_" && i < len(f.params) {
			env.vars[n] = f.params[i]
		}
	}
	for n, v := range f.fvEntry {
		if _, clash := env.vars[n]; !clash {
			env.vars[n] = v
		}
	}
	if len(sp.Results) > len(rv) {
		panic(specErr{fmt.Sprintf("contract %s names %d results, function returns %d", sp.Key, len(sp.Results), len(rv))})
	}
	for i, n := range sp.Results {
		if n != "_" {
			env.vars[n] = rv[i]
		}
	}
	env.old = r.entryShadow(st, f)
	if len(st.frames) == 1 {
		r.curRets = rv
		r.atReturn = true
	}
	for _, c := range sp.Ensures {
		g := env.EvalBool(c.E, st)
		r.oblige(st, "post", c.Label, g, pos)
	}
	r.curRets = nil
	r.atReturn = false
	// nogo[label]: no goroutine was started on this path (the work is done in the caller's goroutine)
	if sp.NoGo != "" {
		g := True
		if c, ok := st.ghost["go_count"]; ok {
			g = Eq(c, Zero)
		}
		r.oblige(st, "nogo", sp.NoGo, g, pos)
	}
	// cover clauses: the condition must be reachable at some return (an expect-sat obligation)
	for _, c := range sp.Covers {
		g := env.EvalBool(c.E, st)
		if r.quiet == 0 {
			o := &Oblig{Name: r.curName + "#cover[" + c.Label + "]", Kind: "cover", Fn: r.curName, Goal: Not(g),
				PC: st.fullPC(), Expect: "sat", Trail: strings.Join(st.trail, ","), Pos: posOf(f.fn, pos), FnObj: r.curFn, Spec: r.curSpec}
			o.Props = clauseProps(c.Label, sp.Props)
			r.obligs = append(r.obligs, o)
		}
	}
	// lock balance
	r.lockBalance(st, f, env, pos)
	// frame
	if !sp.ModAll {
		r.frameCheck(st, f, env, pos)
	}
}

func (r *Runner) entryShadow(st *State, f *Frame) *State {
	o := r.shadow(st)
	o.heap = make(map[string]Term, len(f.entry.heap))
	for k, v := range f.entry.heap {
		o.heap[k] = v
	}
	o.W = f.entry.W
	o.epoch = 0
	o.ghost = make(map[string]Term, len(f.entry.ghost))
	for k, v := range f.entry.ghost {
		o.ghost[k] = v
	}
	return o
}

type frameExc struct {
	base   Term
	lo, hi Term // for M: element range excluded; zero Terms = whole object
	ranged bool
	all    bool // the whole component may change
}

func (r *Runner) frameCheck(st *State, f *Frame, env *SEnv, pos token.Pos) {
	sp := f.spec
	exc := map[string][]frameExc{}
	pre := env.old
	penv := r.newEnv(pre, f.fn.Pkg)
	penv.vars = env.vars
	for _, m := range sp.Modifies {
		t := penv.evalModSafe(m)
		switch {
		case t.File != nil:
			comps := []string{"pos"}
			if !t.FilePosOnly {
				comps = []string{"content", "len", "pos", "synced"}
			}
			for _, c := range comps {
				exc["F|"+c] = append(exc["F|"+c], frameExc{base: fileRef(*t.File)})
			}
		case t.Chans:
			exc["CH|closed"] = append(exc["CH|closed"], frameExc{all: true})
		case t.Arrays != nil:
			for _, l := range layout(t.Arrays) {
				k := heapKey("M", t.Arrays, l)
				exc[k] = append(exc[k], frameExc{all: true})
			}
		case t.Place != nil && t.Place.Kind == PObj:
			_, lo, hi := t.Place.typeAt()
			root := layout(t.Place.Root)
			for k := lo; k < hi; k++ {
				key := heapKey("H", t.Place.Root, root[k])
				exc[key] = append(exc[key], frameExc{base: t.Place.Base})
			}
		case t.Place != nil && t.Place.Kind == PElem:
			_, lo, hi := t.Place.typeAt()
			root := layout(t.Place.Root)
			for k := lo; k < hi; k++ {
				key := heapKey("M", t.Place.Root, root[k])
				exc[key] = append(exc[key], frameExc{base: t.Place.Base, lo: t.Place.Idx, hi: Add(t.Place.Idx, One), ranged: true})
			}
		case t.Slice != nil:
			et := elemOf(t.Slice.T)
			if t.Slice.Bk != nil {
				b := t.Slice.Bk
				_, lo, hi := b.typeAtArr()
				root := layout(b.Root)
				for k := lo; k < hi; k++ {
					key := heapKey("H", b.Root, root[k])
					exc[key] = append(exc[key], frameExc{base: b.Base})
				}
				continue
			}
			for _, l := range layout(et) {
				key := heapKey("M", et, l)
				exc[key] = append(exc[key], frameExc{base: t.Slice.C[0], lo: Add(t.Slice.C[1], t.Lo), hi: Add(t.Slice.C[1], t.Hi), ranged: true})
			}
		case t.Map != nil:
			for _, key := range r.mapKeys(*t.Map) {
				exc[key] = append(exc[key], frameExc{base: t.Map.C[0]})
			}
		}
	}
	keys := make([]string, 0, len(st.heap))
	for k := range st.heap {
		keys = append(keys, k)
	}
	sort.Strings(keys)
	for _, k := range keys {
		now := st.heap[k]
		was := r.initialHeapTerm(f.entry, k)
		if now.S == was.S {
			continue
		}
		skip := false
		for _, e := range exc[k] {
			if e.all {
				skip = true
			}
		}
		if skip {
			continue
		}
		rv := BoundVar("r")
		conds := []Term{Le(Zero, rv), Le(rv, f.entry.W)}
		var extra []Term
		for _, e := range exc[k] {
			if e.ranged {
				// elements outside [lo,hi) of this array are preserved
				j := BoundVar("j")
				extra = append(extra, Forall([]Term{j}, Implies(Or(Lt(j, e.lo), Ge(j, e.hi)),
					Eq(Select(Select(now, e.base), j), Select(Select(was, e.base), j)))))
			}
			conds = append(conds, Ne(rv, e.base))
		}
		goal := And(append([]Term{Forall([]Term{rv}, Implies(And(conds...), Eq(Select(now, rv), Select(was, rv))))}, extra...)...)
		r.oblige(st, "frame", shortKey(k), goal, pos)
	}
}

func shortKey(k string) string {
	parts := strings.Split(k, "|")
	if len(parts) >= 3 {
		t := parts[1]
		if i := strings.LastIndex(t, "/"); i >= 0 {
			t = t[i+1:]
		}
		return parts[0] + ":" + t + "." + parts[2]
	}
	return k
}

func (e *SEnv) evalModSafe(x SExpr) (t ModTarget) {
	saved := e.st.side
	var sink []Term
	e.st.side = &sink
	nd := e.st.noDef
	e.st.noDef = true
	defer func() { e.st.side = saved; e.st.noDef = nd }()
	return e.evalMod(x)
}

// ---------- builtins ----------

func (r *Runner) builtin(st *State, f *Frame, b *ssa.Builtin, common *ssa.CallCommon, args []Val, res ssa.Value, pos token.Pos) {
	switch b.Name() {
	case "len":
		env := r.newEnv(st, nil)
		r.setRes(f, res, Val{T: types.Typ[types.Int], C: []Term{env.lenOf(args[0])}})
	case "cap":
		switch args[0].T.Underlying().(type) {
		case *types.Slice:
			r.setRes(f, res, Val{T: types.Typ[types.Int], C: []Term{args[0].C[3]}})
		default:
			v := freshVal("cap", types.Typ[types.Int])
			st.assume(Le(Zero, v.C[0]))
			r.setRes(f, res, v)
		}
	case "append":
		r.builtinAppend(st, f, args, res, pos)
	case "copy":
		n := r.copyInto(st, args[0], args[1])
		r.setRes(f, res, Val{T: types.Typ[types.Int], C: []Term{n}})
	case "delete":
		r.mapDelete(st, args[0], args[1])
	case "close":
		ch := args[0]
		r.panicCheck(st, "close", "close of nil channel: "+exprText(f.fn, common.Args[0]), Ne(ch.C[0], Zero), pos)
		r.panicCheck(st, "close", "close of closed channel: "+exprText(f.fn, common.Args[0]), Not(r.chanClosed(st, ch)), pos)
		r.setChanClosed(st, ch)
	case "panic":
		r.doPanic(st, f, pos, "panic")
	case "recover":
		v := freshVal("recovered", res.Type())
		st.assumeRange(v)
		r.setRes(f, res, v)
	case "print", "println":
	case "min", "max":
		a, b2 := args[0].C[0], args[1].C[0]
		if b.Name() == "min" {
			r.setRes(f, res, Val{T: res.Type(), C: []Term{Ite(Le(a, b2), a, b2)}})
		} else {
			r.setRes(f, res, Val{T: res.Type(), C: []Term{Ite(Ge(a, b2), a, b2)}})
		}
	case "ssa:wrapnilchk":
		r.nilCheck(st, args[0], "method value receiver", pos)
		r.setRes(f, res, args[0])
	case "ssa:deferstack":
		r.setRes(f, res, Val{T: res.Type(), C: []Term{Zero}})
	case "clear":
		switch args[0].T.Underlying().(type) {
		case *types.Map:
			r.mapClear(st, args[0])
		default:
			panic(unsupported("clear on slice"))
		}
	default:
		panic(unsupported("builtin " + b.Name()))
	}
}

// copyInto models copy(dst, src) and returns the number of elements copied.
func (r *Runner) copyInto(st *State, dst, src Val) Term {
	et := elemOf(dst.T)
	n := st.define("ncopy", Ite(Le(dst.C[2], src.C[2]), dst.C[2], src.C[2]))
	if l, ok := litVal(n); ok && l.Sign() == 0 {
		return n
	}
	for k := range layout(et) {
		darr := st.backingArr(dst, et, k)
		var sarr Term
		var soff Term
		if isString(src.T) {
			sarr, soff = src.C[0], src.C[1]
		} else {
			sarr, soff = st.backingArr(src, et, k), src.C[1]
		}
		doff := dst.C[1]
		var na Term
		if l, ok := litVal(n); ok && l.IsInt64() && l.Int64() <= 8 {
			na = darr
			// reads use the old source array (memmove semantics)
			for i := int64(0); i < l.Int64(); i++ {
				na = Store(na, Add(doff, IntLit(i)), Select(sarr, Add(soff, IntLit(i))))
			}
		} else {
			na = Fresh("cp", darr.Sort)
			j := BoundVar("j")
			st.assume(Forall([]Term{j}, Eq(Select(na, j),
				Ite(And(Le(doff, j), Lt(j, Add(doff, n))), Select(sarr, Add(soff, Sub(j, doff))), Select(darr, j)))))
		}
		st.setBackingArr(dst, et, k, na)
	}
	st.logWrite("M|"+typeKey(et), dst.C[0])
	return n
}

func (r *Runner) builtinAppend(st *State, f *Frame, args []Val, res ssa.Value, pos token.Pos) {
	s, t := args[0], args[1]
	et := elemOf(s.T)
	var n, toff Term
	if isString(t.T) {
		n, toff = t.C[2], t.C[1]
	} else {
		n, toff = t.C[2], t.C[1]
	}
	if l, ok := litVal(n); ok && l.Sign() == 0 {
		r.setRes(f, res, s)
		return
	}
	srcArr := func(stt *State, k int) Term {
		if isString(t.T) {
			return t.C[0]
		}
		return stt.backingArr(t, et, k)
	}
	fits := Le(Add(s.C[2], n), s.C[3])
	doFit := func(stt *State) {
		ff := stt.top()
		newLen := Add(s.C[2], n)
		for k := range layout(et) {
			darr := stt.backingArr(s, et, k)
			sarr := srcArr(stt, k)
			start := Add(s.C[1], s.C[2])
			var na Term
			if l, ok := litVal(n); ok && l.IsInt64() && l.Int64() <= 4 {
				na = darr
				for i := int64(0); i < l.Int64(); i++ {
					na = Store(na, Add(start, IntLit(i)), Select(sarr, Add(toff, IntLit(i))))
				}
			} else {
				na = Fresh("app", darr.Sort)
				j := BoundVar("j")
				stt.assume(Forall([]Term{j}, Eq(Select(na, j),
					Ite(And(Le(start, j), Lt(j, Add(start, n))), Select(sarr, Add(toff, Sub(j, start))), Select(darr, j)))))
			}
			stt.setBackingArr(s, et, k, na)
		}
		stt.logWrite("M|"+typeKey(et), s.C[0])
		out := Val{T: s.T, C: []Term{s.C[0], s.C[1], newLen, s.C[3]}, Bk: s.Bk}
		if res != nil {
			ff.regs[res] = out
		}
	}
	doGrow := func(stt *State) {
		ff := stt.top()
		newLen := stt.define("nlen", Add(s.C[2], n))
		ref := stt.allocRef("grown")
		cp := Fresh("cap", SInt)
		stt.assume(Le(newLen, cp), Le(cp, maxLen))
		for k, l := range layout(et) {
			darr := stt.backingArr(s, et, k)
			sarr := srcArr(stt, k)
			var na Term
			if ln, ok := litVal(s.C[2]); ok && ln.Sign() == 0 {
				if nl, ok2 := litVal(n); ok2 && nl.IsInt64() && nl.Int64() <= 4 {
					na = constArr(ArrOf(l.Sort))
					for i := int64(0); i < nl.Int64(); i++ {
						na = Store(na, IntLit(i), Select(sarr, Add(toff, IntLit(i))))
					}
				}
			}
			if na.IsZero() {
				na = Fresh("grow", darr.Sort)
				j := BoundVar("j")
				stt.assume(Forall([]Term{j}, And(
					Implies(And(Le(Zero, j), Lt(j, s.C[2])), Eq(Select(na, j), Select(darr, Add(s.C[1], j)))),
					Implies(And(Le(s.C[2], j), Lt(j, newLen)), Eq(Select(na, j), Select(sarr, Add(toff, Sub(j, s.C[2]))))))))
			}
			// reveal the content of the freshly allocated array
			stt.assume(Eq(Select(stt.heapGet("M", et, l), ref), na))
		}
		stt.nonnil[ref.S] = true
		out := Val{T: s.T, C: []Term{ref, Zero, newLen, cp}}
		if res != nil {
			ff.regs[res] = out
		}
	}
	switch fits.S {
	case "true":
		doFit(st)
		return
	case "false":
		doGrow(st)
		return
	}
	other := r.fork(st)
	st.assume(fits)
	st.trail = append(st.trail, "append:fit")
	doFit(st)
	other.assume(Not(fits))
	other.trail = append(other.trail, "append:grow")
	doGrow(other)
	r.work = append(r.work, other)
}

// mentionsCallHistory: the clause refers to the call history of the function whose contract it belongs to.
func mentionsCallHistory(src string) bool {
	for _, w := range []string{"calls(", "calledwith(", "lastret(", "lastretb(", "lastarg(", "argsat(", "mapsamesince("} {
		if strings.Contains(src, w) {
			return true
		}
	}
	return false
}

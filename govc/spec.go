package main

// Contract language: parser for //@ blocks (see DESIGN.md Appendix A).

import (
	"fmt"
	"math/big"
	"os"
	"strconv"
	"strings"
)

type SExpr interface{}
type (
	SIdent struct{ Name string }
	SIntL  struct{ V *big.Int }
	SStrL  struct{ V string }
	SBin   struct {
		Op   string
		L, R SExpr
	}
	SUn struct {
		Op string
		X  SExpr
	}
	SCall struct {
		Fun  string
		Args []SExpr
	}
	SSel struct {
		X    SExpr
		Name string
	}
	SIndex struct{ X, I SExpr }
	SSlice struct{ X, Lo, Hi SExpr }
	SQuant struct {
		Forall bool
		Var    string
		Lo, Hi SExpr
		Keys   SExpr // non-nil: the variable ranges over the keys present in this map
		Body   SExpr
	}
)

type Clause struct {
	Label string
	E     SExpr
	Src   string
}

type LoopSpec struct {
	Invs []Clause
	Decr SExpr
	Iter []Clause // iteration[label] expr: holds at the END of every iteration; old() = the state at its START; the body's locals are in scope
}

type FuncSpec struct {
	Key      string // resolved ssa function String()
	RawName  string
	Formals  []string
	Results  []string
	Props    []string
	Requires []Clause
	Ensures  []Clause
	Modifies []SExpr
	ModAll   bool // modifies *  (anything)
	Loops    map[int]*LoopSpec
	NoPanic  bool
	NoPanicKinds map[string]bool // `nopanic idx slice`: only these kinds are obligations, the others stay assumptions (nil = all kinds)
	Lossless bool
	AllocBound SExpr
	PanicOK  bool // panic-as-exit
	Trusted  bool
	Inline   bool
	Pure     bool
	Overflow string // "", "assumed"
	Holds    []SExpr
	Acquires []SExpr
	Releases []SExpr
	Yields   bool
	File     string
	Line     int
	Pkg      string
	Opaque   bool // do not verify the body (contract only used by callers); listed as assumption
	CSEnsures []Clause // critical-section postconditions: checked when a lock is released; old() = state at its acquisition
	Rely      []Clause // assumed after every cond.Wait re-acquisition (interference assumption, listed in evidence)
	NoGo      string              // nogo[label]: the function (incl. inlined callees) starts no goroutine
	Covers    []Clause            // cover[label] expr: must be satisfiable at some return of the function
	CensusOnly bool // selected by a census directive only: just its lock-discipline obligations count for the property
	Synth      bool // synthesised by a census directive (no contract text in /repo)
	Before    map[string][]Clause // callee short name -> assertions that must hold (in this function's scope) whenever it calls that callee
}

type TypeSpec struct {
	Name    string // resolved type string
	Guarded map[string]string // field -> mutex field
	GuardedOnly map[string]map[string]string // property -> field -> mutex field (in force only while that property is verified)
	LockInv map[string][]Clause // mutex field -> invariants over `self`
	Stable  map[string][]Clause // mutex field -> two-state invariants (old = state at the previous release/acquisition)
	WaitCond map[string][]Clause // mutex field -> predicates that cond.Wait loops on this mutex wait to become false
	CondOn  map[string]string   // field holding a *sync.Cond -> mutex field it is bound to
	Invs    []Clause
	Pkg     string
}

type PureSpec struct {
	Name    string
	Formals []string
	Body    SExpr
}

type LemmaSpec struct {
	Name    string
	Props   []string
	Vars    []LemmaVar
	Hyps    []Clause
	Goal    Clause
	Goals   []Clause
	Uses    []UseSpec
	Canary  bool
	File    string
	Pkg     string
}
type LemmaVar struct{ Name, Type string }

// UseSpec: "uses F(args) (results)" — the postconditions of F's contract are hypotheses of the lemma.
type UseSpec struct {
	Key     string
	Args    []string
	Results []string
}

// CensusSpec: `census T property ID`: EVERY method of type T is checked for the lock discipline declared by
// T's guarded_by clauses (a contract with an unrestricted frame is synthesised for methods without one).
type CensusSpec struct {
	Pkg, Type, Prop string
	File            string
	Line            int
}

type SpecSet struct {
	Census  []CensusSpec
	Globals map[string]string // pkg.Name -> "nonnil"
	PureIface map[string][]string // interface type -> method-name prefixes assumed read-only
	Axioms  []Clause
	Funcs  map[string]*FuncSpec
	Types  map[string]*TypeSpec
	Pures  map[string]*PureSpec
	Lemmas []*LemmaSpec
	Order  []*FuncSpec
}

func NewSpecSet() *SpecSet {
	return &SpecSet{Globals: map[string]string{}, Funcs: map[string]*FuncSpec{}, Types: map[string]*TypeSpec{}, Pures: map[string]*PureSpec{}}
}

// ---------- lexer ----------

type tok struct {
	k string // "id","int","str","op","eof"
	s string
}

func lex(src string) ([]tok, error) {
	var out []tok
	i := 0
	for i < len(src) {
		c := src[i]
		switch {
		case c == ' ' || c == '\t':
			i++
		case c >= '0' && c <= '9':
			j := i
			for j < len(src) && (src[j] >= '0' && src[j] <= '9' || src[j] == 'x' || src[j] == '_' || src[j] >= 'a' && src[j] <= 'f' || src[j] >= 'A' && src[j] <= 'F') {
				j++
			}
			out = append(out, tok{"int", strings.ReplaceAll(src[i:j], "_", "")})
			i = j
		case c == '_' || c >= 'a' && c <= 'z' || c >= 'A' && c <= 'Z':
			j := i
			for j < len(src) && (src[j] == '_' || src[j] >= 'a' && src[j] <= 'z' || src[j] >= 'A' && src[j] <= 'Z' || src[j] >= '0' && src[j] <= '9') {
				j++
			}
			out = append(out, tok{"id", src[i:j]})
			i = j
		case c == '"':
			j := i + 1
			for j < len(src) && src[j] != '"' {
				if src[j] == '\\' {
					j++
				}
				j++
			}
			if j >= len(src) {
				return nil, fmt.Errorf("unterminated string")
			}
			s, err := strconv.Unquote(src[i : j+1])
			if err != nil {
				return nil, err
			}
			out = append(out, tok{"str", s})
			i = j + 1
		case c == '\'':
			j := i + 1
			for j < len(src) && src[j] != '\'' {
				if src[j] == '\\' {
					j++
				}
				j++
			}
			r, _, _, err := strconv.UnquoteChar(src[i+1:j], '\'')
			if err != nil {
				return nil, err
			}
			out = append(out, tok{"int", strconv.Itoa(int(r))})
			i = j + 1
		default:
			for _, op := range []string{"<==>", "==>", "..", "==", "!=", "<=", ">=", "&&", "||", "<<", ">>"} {
				if strings.HasPrefix(src[i:], op) {
					out = append(out, tok{"op", op})
					i += len(op)
					goto next
				}
			}
			if strings.ContainsRune("+-*/%!<>()[],.:&|^", rune(c)) {
				out = append(out, tok{"op", string(c)})
				i++
			} else {
				return nil, fmt.Errorf("bad character %q", c)
			}
		next:
		}
	}
	out = append(out, tok{"eof", ""})
	return out, nil
}

type parser struct {
	t []tok
	p int
}

func (p *parser) peek() tok { return p.t[p.p] }
func (p *parser) next() tok { t := p.t[p.p]; p.p++; return t }
func (p *parser) isOp(s string) bool {
	return p.t[p.p].k == "op" && p.t[p.p].s == s
}
func (p *parser) expect(s string) {
	if !p.isOp(s) {
		panic(fmt.Errorf("expected %q got %q", s, p.peek().s))
	}
	p.p++
}

func ParseExpr(src string) (e SExpr, err error) {
	ts, err := lex(src)
	if err != nil {
		return nil, err
	}
	p := &parser{t: ts}
	defer func() {
		if r := recover(); r != nil {
			err = fmt.Errorf("%v in %q", r, src)
		}
	}()
	e = p.expr()
	if p.peek().k != "eof" {
		panic(fmt.Errorf("trailing %q", p.peek().s))
	}
	return e, nil
}

func (p *parser) expr() SExpr {
	if p.peek().k == "id" && (p.peek().s == "forall" || p.peek().s == "exists") {
		q := p.next().s
		v := p.next()
		if v.k != "id" {
			panic("quantifier variable expected")
		}
		if t := p.next(); t.s != "in" {
			panic("'in' expected")
		}
		lo := p.add()
		if id, ok := lo.(*SIdent); ok && id.Name == "all" && p.isOp(":") {
			// unbounded integer-sorted quantification (used in axioms about uninterpreted functions)
			p.expect(":")
			body := p.expr()
			return &SQuant{Forall: q == "forall", Var: v.s, Body: body}
		}
		if c, ok := lo.(*SCall); ok && c.Fun == "keys" && len(c.Args) == 1 && p.isOp(":") {
			// quantification over the keys present in a map: forall k in keys(m): body
			p.expect(":")
			body := p.expr()
			return &SQuant{Forall: q == "forall", Var: v.s, Keys: c.Args[0], Body: body}
		}
		p.expect("..")
		hi := p.add()
		p.expect(":")
		body := p.expr()
		return &SQuant{Forall: q == "forall", Var: v.s, Lo: lo, Hi: hi, Body: body}
	}
	return p.iff()
}
func (p *parser) iff() SExpr {
	l := p.impl()
	for p.isOp("<==>") {
		p.next()
		r := p.impl()
		l = &SBin{"<==>", l, r}
	}
	return l
}
func (p *parser) impl() SExpr {
	l := p.or()
	if p.isOp("==>") {
		p.next()
		var r SExpr
		if p.peek().k == "id" && (p.peek().s == "forall" || p.peek().s == "exists") {
			r = p.expr()
		} else {
			r = p.impl()
		}
		return &SBin{"==>", l, r}
	}
	return l
}
func (p *parser) or() SExpr {
	l := p.and()
	for p.isOp("||") {
		p.next()
		l = &SBin{"||", l, p.and()}
	}
	return l
}
func (p *parser) and() SExpr {
	l := p.cmp()
	for p.isOp("&&") {
		p.next()
		var r SExpr
		if p.peek().k == "id" && (p.peek().s == "forall" || p.peek().s == "exists") {
			r = p.expr()
		} else {
			r = p.cmp()
		}
		l = &SBin{"&&", l, r}
	}
	return l
}
func (p *parser) cmp() SExpr {
	l := p.add()
	for {
		t := p.peek()
		if t.k == "op" && (t.s == "==" || t.s == "!=" || t.s == "<" || t.s == "<=" || t.s == ">" || t.s == ">=") {
			p.next()
			r := p.add()
			l = &SBin{t.s, l, r}
			continue
		}
		return l
	}
}
func (p *parser) add() SExpr {
	l := p.mul()
	for p.isOp("+") || p.isOp("-") {
		op := p.next().s
		l = &SBin{op, l, p.mul()}
	}
	return l
}
func (p *parser) mul() SExpr {
	l := p.unary()
	for p.isOp("*") || p.isOp("/") || p.isOp("%") {
		op := p.next().s
		l = &SBin{op, l, p.unary()}
	}
	return l
}
func (p *parser) unary() SExpr {
	if p.isOp("!") || p.isOp("-") {
		op := p.next().s
		return &SUn{op, p.unary()}
	}
	return p.postfix()
}
func (p *parser) postfix() SExpr {
	var e SExpr
	t := p.next()
	switch t.k {
	case "int":
		n, ok := new(big.Int).SetString(t.s, 0)
		if !ok {
			panic("bad int " + t.s)
		}
		e = &SIntL{n}
	case "str":
		e = &SStrL{t.s}
	case "id":
		e = &SIdent{t.s}
	case "op":
		if t.s == "(" {
			e = p.expr()
			p.expect(")")
		} else {
			panic("unexpected " + t.s)
		}
	default:
		panic("unexpected end")
	}
	for {
		switch {
		case p.isOp("."):
			p.next()
			n := p.next()
			if n.k != "id" {
				panic("field name expected")
			}
			e = &SSel{e, n.s}
		case p.isOp("["):
			p.next()
			var lo SExpr
			if !p.isOp(":") {
				lo = p.expr()
			}
			if p.isOp(":") {
				p.next()
				var hi SExpr
				if !p.isOp("]") {
					hi = p.expr()
				}
				p.expect("]")
				e = &SSlice{e, lo, hi}
			} else if p.isOp("..") {
				p.next()
				hi := p.expr()
				p.expect("]")
				e = &SSlice{e, lo, hi}
			} else {
				p.expect("]")
				e = &SIndex{e, lo}
			}
		case p.isOp("("):
			id, ok := e.(*SIdent)
			if !ok {
				// method-ish call x.f(args): treat as call "f" with x first
				if s, ok2 := e.(*SSel); ok2 {
					p.next()
					args := []SExpr{s.X}
					for !p.isOp(")") {
						args = append(args, p.expr())
						if p.isOp(",") {
							p.next()
						}
					}
					p.expect(")")
					e = &SCall{Fun: s.Name, Args: args}
					continue
				}
				panic("call of non-identifier")
			}
			p.next()
			var args []SExpr
			for !p.isOp(")") {
				args = append(args, p.expr())
				if p.isOp(",") {
					p.next()
				}
			}
			p.expect(")")
			e = &SCall{Fun: id.Name, Args: args}
		default:
			return e
		}
	}
}

// ---------- block parser ----------

func splitLabel(rest string) (label, body string) {
	rest = strings.TrimSpace(rest)
	if strings.HasPrefix(rest, "[") {
		if i := strings.Index(rest, "]"); i > 0 {
			return strings.TrimSpace(rest[1:i]), strings.TrimSpace(rest[i+1:])
		}
	}
	return "", rest
}

func splitTop(s string, sep byte) []string {
	var out []string
	depth := 0
	last := 0
	for i := 0; i < len(s); i++ {
		switch s[i] {
		case '(', '[':
			depth++
		case ')', ']':
			depth--
		default:
			if s[i] == sep && depth == 0 {
				out = append(out, strings.TrimSpace(s[last:i]))
				last = i + 1
			}
		}
	}
	if strings.TrimSpace(s[last:]) != "" {
		out = append(out, strings.TrimSpace(s[last:]))
	}
	return out
}

func mustExpr(file string, line int, src string) SExpr {
	e, err := ParseExpr(src)
	if err != nil {
		panic(fmt.Errorf("%s:%d: %v", file, line, err))
	}
	return e
}

// parseFuncHeader parses "NAME(formals) (results)" where NAME may contain
// parentheses: (*T).M or (pkg/path.T).M
func parseFuncHeader(h string) (name string, formals, results []string, err error) {
	h = strings.TrimSpace(h)
	// find the '(' that starts the formals: first '(' at depth 0 that is not at position 0 of a receiver group
	i := 0
	if strings.HasPrefix(h, "(") {
		d := 0
		for ; i < len(h); i++ {
			if h[i] == '(' {
				d++
			} else if h[i] == ')' {
				d--
				if d == 0 {
					i++
					break
				}
			}
		}
	}
	j := strings.Index(h[i:], "(")
	if j < 0 {
		return "", nil, nil, fmt.Errorf("bad func header %q", h)
	}
	name = strings.TrimSpace(h[:i+j])
	rest := h[i+j:]
	k := strings.Index(rest, ")")
	if k < 0 {
		return "", nil, nil, fmt.Errorf("bad func header %q", h)
	}
	formals = splitTop(rest[1:k], ',')
	rest = strings.TrimSpace(rest[k+1:])
	if strings.HasPrefix(rest, "(") && strings.HasSuffix(rest, ")") {
		results = splitTop(rest[1:len(rest)-1], ',')
	} else if rest != "" {
		results = []string{rest}
	}
	return
}

// ParseSpecFile reads //@ lines from a file. pkgPath is used to qualify
// relative function/type names ("" for trusted spec files, which use full names).
func (ss *SpecSet) ParseSpecFile(file, pkgPath string) (err error) {
	data, rerr := os.ReadFile(file)
	if rerr != nil {
		return rerr
	}
	var lines []string
	var lnos []int
	for i, l := range strings.Split(string(data), "\n") {
		t := strings.TrimSpace(l)
		if strings.HasPrefix(t, "//@") {
			body := strings.TrimRight(t[3:], " \t")
			// strip trailing comment " -- ..."
			if k := strings.Index(body, " -- "); k >= 0 {
				body = body[:k]
			}
			if strings.TrimSpace(body) == "" {
				continue
			}
			// continuation lines start with "\"
			if strings.HasPrefix(strings.TrimSpace(body), "\\") && len(lines) > 0 {
				lines[len(lines)-1] += " " + strings.TrimSpace(strings.TrimSpace(body)[1:])
				continue
			}
			lines = append(lines, body)
			lnos = append(lnos, i+1)
		}
	}
	var curF *FuncSpec
	var curT *TypeSpec
	var curL *LemmaSpec
	qual := func(n string) string {
		if pkgPath == "" || strings.Contains(n, "/") || strings.Contains(n, ".") && !strings.HasPrefix(n, "(") {
			if pkgPath == "" {
				return n
			}
		}
		// (*T).M -> (*pkg.T).M ; (T).M -> (pkg.T).M ; F -> pkg.F ; F$1 -> pkg.F$1
		if strings.HasPrefix(n, "(") {
			k := strings.Index(n, ")")
			recv := n[1:k]
			star := ""
			if strings.HasPrefix(recv, "*") {
				star = "*"
				recv = recv[1:]
			}
			if strings.Contains(recv, ".") {
				return n
			}
			return "(" + star + pkgPath + "." + recv + ")" + n[k+1:]
		}
		if strings.Contains(n, ".") {
			return n
		}
		return pkgPath + "." + n
	}
	defer func() {
		if r := recover(); r != nil {
			if e, ok := r.(error); ok {
				err = e
			} else {
				err = fmt.Errorf("%v", r)
			}
		}
	}()
	for li, raw := range lines {
		lno := lnos[li]
		l := strings.TrimSpace(raw)
		word := l
		rest := ""
		if i := strings.IndexAny(l, " \t["); i > 0 {
			word = l[:i]
			rest = strings.TrimSpace(l[i:])
		}
		switch word {
		case "func", "trusted":
			curT, curL = nil, nil
			tr := false
			if word == "trusted" {
				tr = true
				rest = strings.TrimSpace(strings.TrimPrefix(rest, "func"))
			}
			name, formals, results, e := parseFuncHeader(rest)
			if e != nil {
				panic(fmt.Errorf("%s:%d: %v", file, lno, e))
			}
			curF = &FuncSpec{RawName: name, Key: qual(name), Formals: formals, Results: results, Loops: map[int]*LoopSpec{}, Trusted: tr, File: file, Line: lno, Pkg: pkgPath}
			if old, ok := ss.Funcs[curF.Key]; ok {
				panic(fmt.Errorf("%s:%d: duplicate contract for %s (also %s:%d)", file, lno, curF.Key, old.File, old.Line))
			}
			ss.Funcs[curF.Key] = curF
			ss.Order = append(ss.Order, curF)
		case "type":
			curF, curL = nil, nil
			n := rest
			if pkgPath != "" && !strings.Contains(n, ".") {
				n = pkgPath + "." + n
			}
			curT = ss.Types[n]
			if curT == nil {
				curT = &TypeSpec{Name: n, Guarded: map[string]string{}, LockInv: map[string][]Clause{}, Stable: map[string][]Clause{}, CondOn: map[string]string{}, Pkg: pkgPath}
				ss.Types[n] = curT
			}
		case "pure":
			curF, curT, curL = nil, nil, nil
			eq := strings.Index(rest, "=")
			hdr := strings.TrimSpace(strings.TrimPrefix(strings.TrimSpace(rest[:eq]), "func"))
			name, formals, _, e := parseFuncHeader(hdr)
			if e != nil {
				panic(fmt.Errorf("%s:%d: %v", file, lno, e))
			}
			ss.Pures[name] = &PureSpec{Name: name, Formals: formals, Body: mustExpr(file, lno, rest[eq+1:])}
		case "lemma", "canary":
			curF, curT = nil, nil
			// lemma NAME(x: Type, y: Type)
			name := rest
			var vars []LemmaVar
			if i := strings.Index(rest, "("); i > 0 {
				name = strings.TrimSpace(rest[:i])
				for _, v := range splitTop(rest[i+1:strings.LastIndex(rest, ")")], ',') {
					kv := strings.SplitN(v, ":", 2)
					if len(kv) != 2 {
						panic(fmt.Errorf("%s:%d: lemma var needs name: type", file, lno))
					}
					vars = append(vars, LemmaVar{strings.TrimSpace(kv[0]), strings.TrimSpace(kv[1])})
				}
			}
			curL = &LemmaSpec{Name: name, Vars: vars, Canary: word == "canary", File: file, Pkg: pkgPath}
			ss.Lemmas = append(ss.Lemmas, curL)
		case "uses":
			if curL == nil {
				panic(fmt.Errorf("%s:%d: uses outside lemma", file, lno))
			}
			name, formals, results, e := parseFuncHeader(rest)
			if e != nil {
				panic(fmt.Errorf("%s:%d: %v", file, lno, e))
			}
			curL.Uses = append(curL.Uses, UseSpec{Key: qual(name), Args: formals, Results: results})
		case "axiom":
			// axiom[label] expr: a closed assumption about uninterpreted spec functions (listed in the evidence)
			lab, body := splitLabel(rest)
			ss.Axioms = append(ss.Axioms, Clause{lab, mustExpr(file, lno, body), body})
		case "pureiface":
			// pureiface IFACE prefix...: methods of the interface whose name starts with one of the
			// prefixes only read (assumed); calls through the interface havoc their result only
			f := strings.Fields(rest)
			if len(f) < 2 {
				panic(fmt.Errorf("%s:%d: pureiface IFACE prefix...", file, lno))
			}
			if ss.PureIface == nil {
				ss.PureIface = map[string][]string{}
			}
			ss.PureIface[pkgPath+"."+f[0]] = append(ss.PureIface[pkgPath+"."+f[0]], f[1:]...)
		case "census":
			f := strings.Fields(rest)
			if len(f) != 3 || f[1] != "property" {
				panic(fmt.Errorf("%s:%d: census TYPE property ID", file, lno))
			}
			ss.Census = append(ss.Census, CensusSpec{Pkg: pkgPath, Type: f[0], Prop: f[2], File: file, Line: lno})
			curF, curT, curL = nil, nil, nil
		case "load":
			// load <repo-relative dir>: also load that package with source (so its functions can be inlined); handled by the driver
		case "global":
			// global NAME nonnil | global NAME assume <expr over v>
			f := strings.SplitN(strings.TrimSpace(rest), " ", 2)
			if len(f) != 2 {
				panic(fmt.Errorf("%s:%d: global NAME nonnil|assume expr", file, lno))
			}
			what := strings.TrimSpace(f[1])
			if what != "nonnil" {
				if !strings.HasPrefix(what, "assume ") {
					panic(fmt.Errorf("%s:%d: global NAME nonnil|assume expr", file, lno))
				}
				mustExpr(file, lno, strings.TrimPrefix(what, "assume "))
			}
			ss.Globals[pkgPath+"."+f[0]] = what
		case "property":
			ps := strings.Fields(rest)
			if curF != nil {
				curF.Props = append(curF.Props, ps...)
			} else if curL != nil {
				curL.Props = append(curL.Props, ps...)
			}
		case "requires", "ensures", "assume", "show":
			lab, body := splitLabel(rest)
			c := Clause{Label: lab, E: mustExpr(file, lno, body), Src: body}
			switch {
			case curF != nil && word == "requires":
				curF.Requires = append(curF.Requires, c)
			case curF != nil && word == "ensures":
				curF.Ensures = append(curF.Ensures, c)
			case curL != nil && (word == "assume" || word == "requires"):
				curL.Hyps = append(curL.Hyps, c)
			case curL != nil && (word == "show" || word == "ensures"):
				curL.Goal = c
				curL.Goals = append(curL.Goals, c)
			default:
				panic(fmt.Errorf("%s:%d: %s outside block", file, lno, word))
			}
		case "modifies":
			if curF == nil {
				panic(fmt.Errorf("%s:%d: modifies outside func", file, lno))
			}
			for _, m := range splitTop(rest, ',') {
				if m == "*" {
					curF.ModAll = true
					continue
				}
				curF.Modifies = append(curF.Modifies, mustExpr(file, lno, m))
			}
		case "loop":
			if curF == nil {
				panic(fmt.Errorf("%s:%d: loop outside func", file, lno))
			}
			f := strings.SplitN(rest, " ", 2)
			n, e := strconv.Atoi(strings.TrimSuffix(f[0], ":"))
			if e != nil || len(f) < 2 {
				panic(fmt.Errorf("%s:%d: loop N invariant[...] expr", file, lno))
			}
			ls := curF.Loops[n]
			if ls == nil {
				ls = &LoopSpec{}
				curF.Loops[n] = ls
			}
			r := strings.TrimSpace(f[1])
			if strings.HasPrefix(r, "invariant") {
				lab, body := splitLabel(strings.TrimPrefix(r, "invariant"))
				ls.Invs = append(ls.Invs, Clause{lab, mustExpr(file, lno, body), body})
			} else if strings.HasPrefix(r, "iteration") {
				lab, body := splitLabel(strings.TrimPrefix(r, "iteration"))
				ls.Iter = append(ls.Iter, Clause{lab, mustExpr(file, lno, body), body})
			} else if strings.HasPrefix(r, "decreases") {
				ls.Decr = mustExpr(file, lno, strings.TrimPrefix(r, "decreases"))
			} else {
				panic(fmt.Errorf("%s:%d: bad loop clause", file, lno))
			}
		case "lossless":
			// every narrowing integer conversion in the function must preserve the value
			curF.Lossless = true
		case "allocbound":
			// allocbound expr: every make([]T, n) in the function body allocates at most expr elements
			curF.AllocBound = mustExpr(file, lno, rest)
		case "nopanic":
			curF.NoPanic = true
			if ks := strings.Fields(rest); len(ks) > 0 {
				curF.NoPanicKinds = map[string]bool{}
				for _, k := range ks {
					curF.NoPanicKinds[k] = true
				}
			}
		case "panic-as-exit":
			curF.PanicOK = true
		case "inline":
			curF.Inline = true
		case "opaque":
			if rest != "" || curF == nil {
				panic(fmt.Errorf("%s:%d: opaque is a clause of a func block and takes no arguments", file, lno))
			}
			curF.Opaque = true
		case "purefn":
			curF.Pure = true
		case "yields":
			curF.Yields = true
		case "overflow:", "overflow":
			curF.Overflow = strings.TrimSpace(strings.TrimPrefix(rest, ":"))
		case "holds":
			for _, m := range splitTop(rest, ',') {
				curF.Holds = append(curF.Holds, mustExpr(file, lno, m))
			}
		case "acquires":
			for _, m := range splitTop(rest, ',') {
				curF.Acquires = append(curF.Acquires, mustExpr(file, lno, m))
			}
		case "releases":
			for _, m := range splitTop(rest, ',') {
				curF.Releases = append(curF.Releases, mustExpr(file, lno, m))
			}
		case "guarded_by":
			if curT == nil {
				panic(fmt.Errorf("%s:%d: guarded_by outside type", file, lno))
			}
			// guarded_by MU: f1, f2 [only PROP]  -- with `only`, the declaration is in force only while PROP is verified
			only := ""
			if i := strings.Index(rest, " only "); i > 0 {
				only = strings.TrimSpace(rest[i+6:])
				rest = strings.TrimSpace(rest[:i])
			}
			kv := strings.SplitN(rest, ":", 2)
			for _, f := range splitTop(kv[1], ',') {
				if only != "" {
					if curT.GuardedOnly == nil {
						curT.GuardedOnly = map[string]map[string]string{}
					}
					if curT.GuardedOnly[only] == nil {
						curT.GuardedOnly[only] = map[string]string{}
					}
					curT.GuardedOnly[only][f] = strings.TrimSpace(kv[0])
					continue
				}
				curT.Guarded[f] = strings.TrimSpace(kv[0])
			}
		case "lockinv":
			if curT == nil {
				panic(fmt.Errorf("%s:%d: lockinv outside type", file, lno))
			}
			f := strings.SplitN(rest, " ", 2)
			lab, body := splitLabel(f[1])
			curT.LockInv[f[0]] = append(curT.LockInv[f[0]], Clause{lab, mustExpr(file, lno, body), body})
		case "waitcond":
			// waitcond MUTEX [label] expr  -- the predicate waiters on the condition variable of MUTEX wait to become false
			if curT == nil {
				panic(fmt.Errorf("%s:%d: waitcond outside type", file, lno))
			}
			f := strings.SplitN(rest, " ", 2)
			lab, body := splitLabel(f[1])
			if curT.WaitCond == nil {
				curT.WaitCond = map[string][]Clause{}
			}
			curT.WaitCond[f[0]] = append(curT.WaitCond[f[0]], Clause{lab, mustExpr(file, lno, body), body})
		case "stable":
			if curT == nil {
				panic(fmt.Errorf("%s:%d: stable outside type", file, lno))
			}
			f := strings.SplitN(rest, " ", 2)
			lab, body := splitLabel(f[1])
			curT.Stable[f[0]] = append(curT.Stable[f[0]], Clause{lab, mustExpr(file, lno, body), body})
		case "cond":
			// cond FIELD on MUTEX
			if curT == nil {
				panic(fmt.Errorf("%s:%d: cond outside type", file, lno))
			}
			f := strings.Fields(rest)
			if len(f) != 3 || f[1] != "on" {
				panic(fmt.Errorf("%s:%d: cond FIELD on MUTEX", file, lno))
			}
			curT.CondOn[f[0]] = f[2]
		case "csensures":
			if curF == nil {
				panic(fmt.Errorf("%s:%d: csensures outside func", file, lno))
			}
			lab, body := splitLabel(rest)
			curF.CSEnsures = append(curF.CSEnsures, Clause{lab, mustExpr(file, lno, body), body})
		case "nogo":
			if curF == nil {
				panic(fmt.Errorf("%s:%d: nogo outside func", file, lno))
			}
			lab, _ := splitLabel(rest)
			if lab == "" {
				lab = "no_goroutine"
			}
			curF.NoGo = lab
		case "cover":
			if curF == nil {
				panic(fmt.Errorf("%s:%d: cover outside func", file, lno))
			}
			lab, body := splitLabel(rest)
			curF.Covers = append(curF.Covers, Clause{lab, mustExpr(file, lno, body), body})
		case "before":
			// before CALLEE [label] expr: checked at every call of the contracted function CALLEE made by this body
			if curF == nil {
				panic(fmt.Errorf("%s:%d: before outside func", file, lno))
			}
			sp := strings.IndexAny(rest, " \t")
			if sp < 0 {
				panic(fmt.Errorf("%s:%d: before CALLEE [label] expr", file, lno))
			}
			callee := rest[:sp]
			lab, body := splitLabel(rest[sp:])
			if curF.Before == nil {
				curF.Before = map[string][]Clause{}
			}
			curF.Before[callee] = append(curF.Before[callee], Clause{lab, mustExpr(file, lno, body), body})
		case "rely":
			if curF == nil {
				panic(fmt.Errorf("%s:%d: rely outside func", file, lno))
			}
			lab, body := splitLabel(rest)
			curF.Rely = append(curF.Rely, Clause{lab, mustExpr(file, lno, body), body})
		case "invariant":
			lab, body := splitLabel(rest)
			if curT == nil {
				panic(fmt.Errorf("%s:%d: invariant outside type", file, lno))
			}
			curT.Invs = append(curT.Invs, Clause{lab, mustExpr(file, lno, body), body})
		default:
			panic(fmt.Errorf("%s:%d: unknown clause %q", file, lno, word))
		}
	}
	return nil
}

package main

// `govc sweep DIR...`: zero-annotation panic-freedom sweep (developer command, and stage two of the thorough
// tier). Every exported function / method of an exported type in the given package directories that has no
// contract gets a synthesised one -- no precondition at all, nopanic, unrestricted frame -- and its
// panic-freedom obligations are generated and raced on the solvers. A refuted obligation is only a
// CANDIDATE (an internal helper may rely on its callers): it is replayed on the real code, and only a
// reproduced panic of an exported entry point is printed as a finding. Nothing here is ever counted as
// proved, and nothing is a violation unless it reproduces.

import (
	"flag"
	"fmt"
	"go/token"
	"os"
	"path/filepath"
	"sort"
	"strings"
	"time"

	"golang.org/x/tools/go/ssa"
)

type sweepHit struct {
	Fn, Oblig, Status, Replay string
	Reproduced               bool
}

func sweepDirs(dirs []string, timeout int, all bool) ([]sweepHit, map[string]int) {
	stats := map[string]int{}
	l, err := loadAll(dirs, filepath.Join(verifRoot, "govc", "trusted"))
	if err != nil {
		fmt.Fprintln(os.Stderr, err)
		return nil, stats
	}
	want := map[string]bool{}
	for _, d := range dirs {
		want[pkgPathOfDir(d)] = true
	}
	r := l.newRunner()
	var keys []string
	for k, fn := range l.fns {
		if fn.Pkg == nil || !want[fn.Pkg.Pkg.Path()] || len(fn.Blocks) == 0 || fn.Parent() != nil || fn.Synthetic != "" {
			continue
		}
		if pos := fn.Pos(); pos != token.NoPos && strings.HasSuffix(l.prog.Fset.Position(pos).Filename, "_test.go") {
			continue
		}
		if _, has := l.specs.Funcs[k]; has {
			continue // functions under contract are checked by the property checks
		}
		if !all && !exportedEntry(fn) {
			continue
		}
		keys = append(keys, k)
	}
	sort.Strings(keys)
	var obs []*Oblig
	for _, k := range keys {
		fn := l.fns[k]
		sp := &FuncSpec{Key: k, RawName: fn.Name(), ModAll: true, NoPanic: true, Loops: map[int]*LoopSpec{}, Synth: true, Pkg: fn.Pkg.Pkg.Path()}
		for range fn.Params {
			sp.Formals = append(sp.Formals, "_")
		}
		res := l.verifyFunc(r, fn, sp)
		stats["functions"]++
		if res.Err != "" {
			stats["not_translatable"]++
			continue
		}
		for _, o := range res.Obligs {
			if panicObligKinds[o.Kind] || o.Kind == "lossless" {
				obs = append(obs, o)
			}
		}
	}
	stats["panic_obligations"] = len(obs)
	cfg := SolverCfg{TimeoutS: timeout, Scratch: scratchDir(), Parallel: 16}
	dischargeAll(obs, cfg)
	aggs := aggregate(obs)
	cr := &checkRun{id: "SWEEP", l: l, r: r, cfg: cfg}
	var hits []sweepHit
	names := make([]string, 0, len(aggs))
	for n := range aggs {
		names = append(names, n)
	}
	sort.Strings(names)
	for _, n := range names {
		a := aggs[n]
		if strings.HasSuffix(n, "[total]") {
			continue
		}
		switch a.Status {
		case "discharged":
			stats["discharged"]++
		case "refuted":
			stats["refuted_candidates"]++
			path, ok := cr.makeReplay(a)
			if ok {
				stats["reproduced"]++
			}
			hits = append(hits, sweepHit{Fn: a.Insts[0].Fn, Oblig: n, Status: a.Status, Replay: path, Reproduced: ok})
		default:
			stats["undecided"]++
		}
	}
	return hits, stats
}

func exportedEntry(fn *ssa.Function) bool {
	if !token.IsExported(fn.Name()) {
		return false
	}
	return true
}

func cmdSweep(args []string) {
	fs := flag.NewFlagSet("sweep", flag.ExitOnError)
	timeout := fs.Int("t", 10, "solver timeout (s)")
	all := fs.Bool("all", false, "also unexported functions")
	fs.Parse(args)
	t0 := time.Now()
	var dirs []string
	for _, d := range fs.Args() {
		if !filepath.IsAbs(d) {
			d = filepath.Join(repoRoot, d)
		}
		dirs = append(dirs, d)
	}
	hits, stats := sweepDirs(dirs, *timeout, *all)
	defer os.RemoveAll(scratchDir())
	for _, h := range hits {
		tag := "candidate"
		if h.Reproduced {
			tag = "REPRODUCED"
		}
		fmt.Printf("%-10s %s  %s\n", tag, h.Oblig, h.Replay)
	}
	fmt.Printf("sweep: %v in %.1fs\n", stats, time.Since(t0).Seconds())
}

package main

// Replay of refuted obligations against the real code (go test -overlay).

import (
	"fmt"
	"os"
	"path/filepath"
	"strings"
)

// makeReplay writes a replay artefact for a failed obligation and, when the solver
// produced a model for a function whose inputs can be rebuilt, runs the real code.
// It returns the artefact path and whether the failure reproduced on the real code.
func (cr *checkRun) makeReplay(a *Agg) (string, bool) {
	dir := filepath.Join(verifRoot, "replays", cr.id)
	os.MkdirAll(dir, 0o755)
	var inst *Oblig
	for _, o := range a.Insts {
		if o.Status == "refuted" {
			inst = o
			break
		}
	}
	if inst == nil {
		for _, o := range a.Insts {
			if o.Status != "discharged" {
				inst = o
				break
			}
		}
	}
	base := filepath.Join(dir, sanitize(a.Name))
	if inst != nil && inst.Status == "refuted" && inst.FnObj != nil {
		if p, ok := cr.replayOnRealCode(a, inst, base); ok {
			return p, true
		}
	}
	var b strings.Builder
	fmt.Fprintf(&b, "obligation: %s\nstatus: %s\nproperty: %s\n", a.Name, a.Status, cr.id)
	if inst != nil {
		fmt.Fprintf(&b, "where: %s\npath: %s\nsolver: %s (%.2fs) %s\n", inst.Pos, inst.Trail, inst.Solver, inst.Secs, inst.Detail)
		fmt.Fprintf(&b, "goal: %s\n", inst.Goal.S)
		q := base + ".smt2"
		os.WriteFile(q, []byte(inst.Query), 0o644)
		fmt.Fprintf(&b, "query: %s (re-run: z3-new -smt2 %s)\n", q, q)
	}
	fmt.Fprintf(&b, "replay: no failing input found (the solver returned no model, or the model could not be turned into inputs for the real function)\n")
	p := base + ".txt"
	os.WriteFile(p, []byte(b.String()), 0o644)
	return p, false
}


func cmdReplay(id string, args []string) {
	if len(args) < 1 {
		fmt.Fprintln(os.Stderr, "usage: govc check <ID> --replay <path>")
		os.Exit(2)
	}
	data, err := os.ReadFile(args[0])
	if err != nil {
		fmt.Fprintln(os.Stderr, err)
		os.Exit(2)
	}
	// a generated replay test: run it again on the real code of the current working tree
	if strings.HasSuffix(args[0], "_replay_test.go") {
		for _, ln := range strings.Split(string(data), "\n") {
			if strings.HasPrefix(ln, "// govc-pkgdir: ") {
				dir := strings.TrimSpace(strings.TrimPrefix(ln, "// govc-pkgdir: "))
				out, lg, err := runReplayTest(dir, args[0])
				fmt.Print(lg)
				if err != nil {
					fmt.Fprintln(os.Stderr, err)
					os.Exit(2)
				}
				fmt.Println(string(out))
				os.RemoveAll(scratchDir())
				return
			}
		}
	}
	if strings.HasSuffix(args[0], ".replay.txt") {
		fmt.Print(string(data))
		tp := strings.TrimSuffix(args[0], ".replay.txt") + "_replay_test.go"
		if _, err := os.Stat(tp); err == nil {
			cmdReplay(id, []string{tp})
		}
		return
	}
	fmt.Print(string(data))
}

package main

// Symbolic values: every Go value is a flat list of SMT components.

import (
	"fmt"
	"go/types"
	"math/big"
	"strings"

	"golang.org/x/tools/go/ssa"
)

// Leaf describes one SMT component of a Go type.
type Leaf struct {
	Name string     // dotted path + component suffix, e.g. "Key$len"
	Sort Sort       // sort of the value component
	GoT  types.Type // Go type of the scalar this belongs to (for range assumptions)
	Role string     // "int","bool","str.arr","str.off","str.len","sl.ref","sl.off","sl.len","sl.cap","if.tag","if.pay","ptr","opaque","arr:<role>"
	ArrN int64      // >0 when this leaf is an array-typed component (elements are of Sort.Elem())
}

var layoutCache = map[string][]Leaf{}

func typeKey(t types.Type) string { return canonBasic(types.TypeString(t, nil)) }

func shortType(t types.Type) string {
	return canonBasic(types.TypeString(t, func(p *types.Package) string { return p.Name() }))
}

// canonBasic rewrites the alias names byte/rune to uint8/int32 (unqualified occurrences only),
// so that []byte and []uint8 share one heap.
func canonBasic(s string) string {
	if !strings.Contains(s, "byte") && !strings.Contains(s, "rune") {
		return s
	}
	isId := func(c byte) bool {
		return c == '_' || c == '.' || c >= 'a' && c <= 'z' || c >= 'A' && c <= 'Z' || c >= '0' && c <= '9'
	}
	var b strings.Builder
	for i := 0; i < len(s); {
		rep := ""
		for _, pr := range [][2]string{{"byte", "uint8"}, {"rune", "int32"}} {
			if strings.HasPrefix(s[i:], pr[0]) && (i == 0 || !isId(s[i-1])) && (i+4 == len(s) || !isId(s[i+4])) {
				rep = pr[1]
			}
		}
		if rep != "" {
			b.WriteString(rep)
			i += 4
			continue
		}
		b.WriteByte(s[i])
		i++
	}
	return b.String()
}

// layout returns the component leaves of t.
func layout(t types.Type) []Leaf {
	k := typeKey(t)
	if l, ok := layoutCache[k]; ok {
		return l
	}
	var out []Leaf
	switch u := t.Underlying().(type) {
	case *types.Basic:
		switch {
		case u.Info()&types.IsBoolean != 0:
			out = []Leaf{{"", SBool, t, "bool", 0}}
		case u.Info()&types.IsString != 0:
			out = []Leaf{{"$arr", SArr, t, "str.arr", 0}, {"$off", SInt, t, "str.off", 0}, {"$len", SInt, t, "str.len", 0}}
		case u.Info()&types.IsInteger != 0:
			out = []Leaf{{"", SInt, t, "int", 0}}
		case u.Kind() == types.UnsafePointer:
			out = []Leaf{{"", SInt, t, "ptr", 0}}
		default: // floats, complex, untyped nil
			out = []Leaf{{"", SInt, t, "opaque", 0}}
		}
	case *types.Pointer, *types.Chan, *types.Map, *types.Signature:
		out = []Leaf{{"", SInt, t, "ptr", 0}}
	case *types.Slice:
		out = []Leaf{{"$ref", SInt, t, "sl.ref", 0}, {"$off", SInt, t, "sl.off", 0}, {"$len", SInt, t, "sl.len", 0}, {"$cap", SInt, t, "sl.cap", 0}}
	case *types.Interface:
		out = []Leaf{{"$tag", SInt, t, "if.tag", 0}, {"$pay", SInt, t, "if.pay", 0}}
	case *types.Struct:
		for i := 0; i < u.NumFields(); i++ {
			f := u.Field(i)
			for _, l := range layout(f.Type()) {
				n := f.Name()
				if l.Name != "" && !strings.HasPrefix(l.Name, "$") {
					n += "."
				}
				out = append(out, Leaf{n + l.Name, l.Sort, l.GoT, l.Role, l.ArrN})
			}
		}
	case *types.Array:
		for _, l := range layout(u.Elem()) {
			n := u.Len()
			if l.ArrN > 0 {
				// nested arrays: flatten by treating as opaque (rare)
				out = append(out, Leaf{"[]" + l.Name, ArrOf(l.Sort), l.GoT, "arr:" + l.Role, n})
			} else {
				out = append(out, Leaf{"[]" + l.Name, ArrOf(l.Sort), l.GoT, "arr:" + l.Role, n})
			}
		}
	case *types.Tuple:
		for i := 0; i < u.Len(); i++ {
			for _, l := range layout(u.At(i).Type()) {
				out = append(out, Leaf{fmt.Sprintf("#%d%s", i, l.Name), l.Sort, l.GoT, l.Role, l.ArrN})
			}
		}
	default: // type params etc.
		out = []Leaf{{"", SInt, t, "opaque", 0}}
	}
	layoutCache[k] = out
	return out
}

// fieldRange returns [lo,hi) component indices of field i of struct type t.
func fieldRange(t types.Type, i int) (int, int) {
	st := t.Underlying().(*types.Struct)
	lo := 0
	for j := 0; j < i; j++ {
		lo += len(layout(st.Field(j).Type()))
	}
	return lo, lo + len(layout(st.Field(i).Type()))
}

func tupleRange(t *types.Tuple, i int) (int, int) {
	lo := 0
	for j := 0; j < i; j++ {
		lo += len(layout(t.At(j).Type()))
	}
	return lo, lo + len(layout(t.At(i).Type()))
}

// Val is a symbolic value.
type Val struct {
	T   types.Type
	C   []Term
	P   *Place      // for pointers: where it points (Go-side, structural)
	Bk  *Place      // for slices backed by an array inside a struct/cell (array place)
	Clo *Closure    // for function values known to be a closure/function
	Lk  *Place      // for *sync.Cond / sync.Locker values: the mutex they are bound to (from a `cond F on M` declaration)
}

type Closure struct {
	Fn       *ssa.Function
	Bindings []Val
}

func (v Val) Term() Term {
	if len(v.C) != 1 {
		panic(fmt.Sprintf("Term() on %d-component value of type %v", len(v.C), v.T))
	}
	return v.C[0]
}

func specInt(t Term) Val  { return Val{T: nil, C: []Term{t}} }
func specBool(t Term) Val { return Val{T: nil, C: []Term{t}} }

// integer type info
func intInfo(t types.Type) (bits uint, signed bool, ok bool) {
	b, isb := t.Underlying().(*types.Basic)
	if !isb || b.Info()&types.IsInteger == 0 {
		return 0, false, false
	}
	switch b.Kind() {
	case types.Int8:
		return 8, true, true
	case types.Int16:
		return 16, true, true
	case types.Int32:
		return 32, true, true
	case types.Int64, types.Int, types.UntypedInt, types.UntypedRune:
		return 64, true, true
	case types.Uint8:
		return 8, false, true
	case types.Uint16:
		return 16, false, true
	case types.Uint32:
		return 32, false, true
	case types.Uint64, types.Uint, types.Uintptr:
		return 64, false, true
	}
	return 0, false, false
}

func intBounds(t types.Type) (lo, hi *big.Int, ok bool) {
	bits, signed, ok := intInfo(t)
	if !ok {
		return nil, nil, false
	}
	if signed {
		hi = new(big.Int).Sub(pow2(bits-1), big.NewInt(1))
		lo = new(big.Int).Neg(pow2(bits - 1))
	} else {
		lo = big.NewInt(0)
		hi = new(big.Int).Sub(pow2(bits), big.NewInt(1))
	}
	return lo, hi, true
}

// wrap reduces a mathematical integer term into the range of t (exact two's complement).
func wrapInt(x Term, t types.Type) Term {
	bits, signed, ok := intInfo(t)
	if !ok {
		return x
	}
	m := BigLit(pow2(bits))
	if v, isLit := litVal(x); isLit {
		r := new(big.Int).Mod(v, pow2(bits))
		if signed && r.Cmp(pow2(bits-1)) >= 0 {
			r.Sub(r, pow2(bits))
		}
		return BigLit(r)
	}
	if !signed {
		return Mod(x, m)
	}
	h := BigLit(pow2(bits - 1))
	// ((x + 2^(k-1)) mod 2^k) - 2^(k-1)
	return Sub(Mod(Add(x, h), m), h)
}

// wrapAddSub: exact wrap for a value known to lie within one modulus of the range.
func wrapNear(x Term, t types.Type) Term {
	bits, signed, ok := intInfo(t)
	if !ok {
		return x
	}
	if _, isLit := litVal(x); isLit {
		return wrapInt(x, t)
	}
	m := BigLit(pow2(bits))
	lo, hi, _ := intBounds(t)
	_ = signed
	return Ite(Gt(x, BigLit(hi)), Sub(x, m), Ite(Lt(x, BigLit(lo)), Add(x, m), x))
}

const maxLenLog = 48

var maxLen = BigLit(pow2(maxLenLog))

// rangeFacts returns the typing assumptions for a freshly introduced value.
func rangeFacts(v Val) []Term {
	if v.T == nil {
		return nil
	}
	var out []Term
	ls := layout(v.T)
	for i, l := range ls {
		c := v.C[i]
		switch l.Role {
		case "int":
			if lo, hi, ok := intBounds(l.GoT); ok {
				out = append(out, Le(BigLit(lo), c), Le(c, BigLit(hi)))
			}
		case "str.off", "sl.off":
			out = append(out, Le(Zero, c), Le(c, maxLen))
		case "str.len":
			out = append(out, Le(Zero, c), Le(c, maxLen))
		case "sl.len":
			// 0 <= len <= cap ; ref==0 => len==cap==0
			ref, capc := v.C[i-2], v.C[i+1]
			out = append(out, Le(Zero, c), Le(c, capc), Le(capc, maxLen), Le(Zero, ref),
				Implies(Eq(ref, Zero), Eq(capc, Zero)))
		case "ptr":
			out = append(out, Le(Zero, c))
		case "if.tag":
			pay := v.C[i+1]
			out = append(out, Le(Zero, c), Implies(Eq(c, Zero), Eq(pay, Zero)))
		}
	}
	return out
}

// zeroVal returns the zero value of type t.
func zeroVal(t types.Type) Val {
	ls := layout(t)
	v := Val{T: t, C: make([]Term, len(ls))}
	for i, l := range ls {
		v.C[i] = zeroOfLeaf(l)
	}
	return v
}

var zeroArrCache = map[Sort]Term{}

func zeroOfLeaf(l Leaf) Term {
	switch l.Sort {
	case SInt:
		return Zero
	case SBool:
		return False
	}
	return constArr(l.Sort)
}

// constArr returns an array term of the given sort with all elements zero.
func constArr(s Sort) Term {
	el := s.Elem()
	var z Term
	switch el {
	case SInt:
		z = Zero
	case SBool:
		z = False
	default:
		z = constArr(el)
	}
	return Term{fmt.Sprintf("((as const %s) %s)", s, z.S), s}
}

// freshVal returns a value of type t made of fresh constants (no assumptions).
func freshVal(hint string, t types.Type) Val {
	ls := layout(t)
	v := Val{T: t, C: make([]Term, len(ls))}
	for i, l := range ls {
		v.C[i] = Fresh(hint+l.Name, l.Sort)
	}
	return v
}

func sub(v Val, t types.Type, lo, hi int) Val {
	return Val{T: t, C: v.C[lo:hi]}
}

func isString(t types.Type) bool {
	b, ok := t.Underlying().(*types.Basic)
	return ok && b.Info()&types.IsString != 0
}
func isSlice(t types.Type) bool { _, ok := t.Underlying().(*types.Slice); return ok }
func isIface(t types.Type) bool { _, ok := t.Underlying().(*types.Interface); return ok }
func isBool(t types.Type) bool {
	b, ok := t.Underlying().(*types.Basic)
	return ok && b.Info()&types.IsBoolean != 0
}
func isFloat(t types.Type) bool {
	b, ok := t.Underlying().(*types.Basic)
	return ok && b.Info()&types.IsFloat != 0
}
func isPtrLike(t types.Type) bool {
	switch t.Underlying().(type) {
	case *types.Pointer, *types.Chan, *types.Map, *types.Signature:
		return true
	}
	return false
}
func elemOf(t types.Type) types.Type {
	switch u := t.Underlying().(type) {
	case *types.Slice:
		return u.Elem()
	case *types.Array:
		return u.Elem()
	case *types.Pointer:
		return u.Elem()
	case *types.Map:
		return u.Elem()
	case *types.Chan:
		return u.Elem()
	case *types.Basic:
		if u.Info()&types.IsString != 0 {
			return types.Typ[types.Uint8]
		}
	}
	return nil
}

// type tags for interfaces
var (
	typeTags   = map[string]int64{}
	typeTagRev = map[int64]types.Type{}
)

func typeTag(t types.Type) Term {
	k := typeKey(t)
	symMu.Lock()
	defer symMu.Unlock()
	if n, ok := typeTags[k]; ok {
		return IntLit(n)
	}
	n := int64(len(typeTags) + 1)
	typeTags[k] = n
	typeTagRev[n] = t
	return IntLit(n)
}

package main

// State merging at the immediate post-dominator of a conditional branch: both arms are
// executed to the join point and merged with ite-terms, which keeps the number of
// explored paths roughly linear for side-effect-free diamonds (short-circuit conditions,
// clamping ifs, switch dispatch) instead of exponential.

import (
	"fmt"
	"go/types"
	"strings"

	"golang.org/x/tools/go/ssa"
)

var ipdomCache = map[*ssa.Function]map[int]*ssa.BasicBlock{}

// ipdoms computes immediate post-dominators (nil = the virtual exit).
func ipdoms(fn *ssa.Function) map[int]*ssa.BasicBlock {
	if m, ok := ipdomCache[fn]; ok {
		return m
	}
	n := len(fn.Blocks)
	const exit = -1
	// pdom sets as bitsets over block indices; exit handled implicitly
	full := make([]bool, n)
	for i := range full {
		full[i] = true
	}
	pd := make([][]bool, n)
	isExit := make([]bool, n)
	for i, b := range fn.Blocks {
		pd[i] = append([]bool{}, full...)
		if len(b.Succs) == 0 {
			isExit[i] = true
			pd[i] = make([]bool, n)
			pd[i][i] = true
		}
	}
	changed := true
	for changed {
		changed = false
		for i := n - 1; i >= 0; i-- {
			b := fn.Blocks[i]
			if isExit[i] {
				continue
			}
			nw := append([]bool{}, full...)
			for _, s := range b.Succs {
				for k := 0; k < n; k++ {
					nw[k] = nw[k] && pd[s.Index][k]
				}
			}
			nw[i] = true
			for k := 0; k < n; k++ {
				if nw[k] != pd[i][k] {
					changed = true
				}
			}
			pd[i] = nw
		}
	}
	out := map[int]*ssa.BasicBlock{}
	for i := range fn.Blocks {
		// strict post-dominators of i; the immediate one is the one post-dominated by all others... i.e.
		// the strict pdom d such that every other strict pdom of i also post-dominates d.
		var cands []int
		for k := 0; k < n; k++ {
			if k != i && pd[i][k] {
				cands = append(cands, k)
			}
		}
		for _, d := range cands {
			ok := true
			for _, e := range cands {
				if e != d && !pd[d][e] {
					ok = false
					break
				}
			}
			if ok {
				out[i] = fn.Blocks[d]
				break
			}
		}
	}
	_ = exit
	ipdomCache[fn] = out
	return out
}

func firstNonPhi(b *ssa.BasicBlock) int {
	for i, in := range b.Instrs {
		switch in.(type) {
		case *ssa.Phi, *ssa.DebugRef:
			continue
		}
		return i
	}
	return len(b.Instrs)
}

type mergeAbort struct{}

func samePlace(a, b *Place) bool {
	if a == nil || b == nil {
		return a == b
	}
	if a.Kind != b.Kind || a.Cell != b.Cell || a.Base.S != b.Base.S || a.Idx.S != b.Idx.S || a.HasArr != b.HasArr || a.AIdx.S != b.AIdx.S || len(a.Path) != len(b.Path) || a.ArrLen != b.ArrLen {
		return false
	}
	if a.Root != nil && b.Root != nil && !types.Identical(a.Root, b.Root) {
		return false
	}
	for i := range a.Path {
		if a.Path[i] != b.Path[i] {
			return false
		}
	}
	return true
}

// mergeVal merges two values under guard g (g selects a).
func mergeVal(g Term, a, b Val) (Val, bool) {
	if len(a.C) != len(b.C) {
		return Val{}, false
	}
	out := Val{T: a.T, C: make([]Term, len(a.C))}
	same := true
	for i := range a.C {
		if a.C[i].S != b.C[i].S {
			same = false
		}
		if a.C[i].Sort != b.C[i].Sort {
			return Val{}, false
		}
		out.C[i] = Ite(g, a.C[i], b.C[i])
	}
	if same {
		// identical components: keep Go-side annotations when they agree
		out = a
		if !samePlace(a.P, b.P) {
			out.P = nil
		}
		if !samePlace(a.Bk, b.Bk) || !samePlace(a.Lk, b.Lk) {
			return Val{}, false
		}
		if (a.Clo == nil) != (b.Clo == nil) || (a.Clo != nil && a.Clo.Fn != b.Clo.Fn) {
			out.Clo = nil
		}
		return out, true
	}
	// different components: structural annotations must agree or be droppable
	if !samePlace(a.P, b.P) {
		for _, p := range []*Place{a.P, b.P} {
			if p != nil && (p.Kind == PCell || p.Kind == PElem || p.Kind == PArr || len(p.Path) > 0 || p.HasArr) {
				return Val{}, false // interior / stack pointers cannot be merged symbolically
			}
		}
	} else {
		out.P = a.P
	}
	if a.Bk != nil || b.Bk != nil || a.Lk != nil || b.Lk != nil {
		if !samePlace(a.Bk, b.Bk) || !samePlace(a.Lk, b.Lk) {
			return Val{}, false
		}
		out.Bk, out.Lk = a.Bk, a.Lk
	}
	if a.Clo != nil && b.Clo != nil && a.Clo.Fn == b.Clo.Fn && a.Clo.Fn != nil {
		out.Clo = a.Clo // same function; bindings assumed merged by value is not possible -> only when identical
		if len(a.Clo.Bindings) > 0 {
			out.Clo = nil
		}
	}
	return out, true
}

func sameStrMap(a, b map[string]string) bool {
	if len(a) != len(b) {
		return false
	}
	for k, v := range a {
		if b[k] != v {
			return false
		}
	}
	return true
}

// mergeInto merges state b into state a (both stopped at the same program point).
// Returns false (leaving a untouched) when the states cannot be merged.
func (r *Runner) mergeInto(a, b *State) bool {
	if len(a.frames) != len(b.frames) || a.epoch != b.epoch || !sameStrMap(a.held, b.held) {
		return mergeFail(1)
	}
	for i := range a.frames {
		fa, fb := a.frames[i], b.frames[i]
		if fa.id != fb.id || fa.blk != fb.blk || fa.ip != fb.ip || len(fa.defers) != len(fb.defers) || len(fa.loops) != len(fb.loops) {
			return mergeFail(2)
		}
		for k := range fa.loops {
			if fb.loops[k] != fa.loops[k] {
				return mergeFail(3)
			}
		}
		for k := range fa.defers {
			if fa.defers[k].instr != fb.defers[k].instr {
				return mergeFail(4)
			}
		}
	}
	for k, v := range a.lockSnap {
		if b.lockSnap[k] != v {
			return mergeFail(5)
		}
	}
	// common prefix of the path conditions
	n := 0
	for n < len(a.pc) && n < len(b.pc) && a.pc[n].S == b.pc[n].S {
		n++
	}
	ga := And(a.pc[n:]...)
	gb := And(b.pc[n:]...)
	if ga.S == "true" || gb.S == "true" {
		// one state subsumes the other only if the suffix is empty; guard must distinguish them
		if ga.S == "true" && gb.S == "true" {
			return mergeFail(6)
		}
	}
	g := Fresh("mg", SBool)
	// prepare everything first (no mutation until success is certain)
	type cellUpd struct {
		k cellKey
		v Val
	}
	var cells []cellUpd
	for k, va := range a.cells {
		vb, ok := b.cells[k]
		if !ok {
			continue
		}
		mv, ok := mergeVal(g, va, vb)
		if !ok {
			return mergeFail(7)
		}
		cells = append(cells, cellUpd{k, mv})
	}
	type regUpd struct {
		fi int
		k  ssa.Value
		v  Val
	}
	var regs []regUpd
	for i := range a.frames {
		for k, va := range a.frames[i].regs {
			vb, ok := b.frames[i].regs[k]
			if !ok {
				continue
			}
			mv, ok := mergeVal(g, va, vb)
			if !ok {
				return mergeFail(8)
			}
			regs = append(regs, regUpd{i, k, mv})
		}
		// deferred call arguments must agree
		for k := range a.frames[i].defers {
			da, db := a.frames[i].defers[k], b.frames[i].defers[k]
			if len(da.args) != len(db.args) {
				return mergeFail(9)
			}
			for j := range da.args {
				for c := range da.args[j].C {
					if c >= len(db.args[j].C) || da.args[j].C[c].S != db.args[j].C[c].S {
						return mergeFail(10)
					}
				}
			}
		}
	}
	heap := map[string]Term{}
	for k, ta := range a.heap {
		tb, ok := b.heap[k]
		if !ok {
			info := rawHeapInfo[k]
			tb = b.rawHeapGet(k, info.sym, info.sort)
		}
		heap[k] = Ite(g, ta, tb)
	}
	for k, tb := range b.heap {
		if _, ok := a.heap[k]; !ok {
			info := rawHeapInfo[k]
			ta := a.rawHeapGet(k, info.sym, info.sort)
			heap[k] = Ite(g, ta, tb)
		}
	}
	ghost := map[string]Term{}
	// a ghost variable missing on one side still has its initial (symbolic) value there
	initialGhost := func(s *State, k string) (Term, bool) {
		switch {
		case strings.HasPrefix(k, "calls:"):
			return Sym("calls_"+sanitize(strings.TrimPrefix(k, "calls:"))+"@entry", SInt), true
		case strings.HasPrefix(k, "ifver:"):
			return Sym("ifver_"+sanitize(strings.TrimPrefix(k, "ifver:"))+"@entry", SArr), true
		case strings.HasPrefix(k, "spec:"):
			return Sym(fmt.Sprintf("ghost_%s@%d", sanitize(strings.TrimPrefix(k, "spec:")), s.epoch), SInt), true
		}
		return Term{}, false
	}
	for k, ta := range a.ghost {
		tb, ok := b.ghost[k]
		if !ok {
			if strings.HasPrefix(k, "iter:") {
				continue // iterator state of a loop only one side went through: dead after the join
			}
			if tb, ok = initialGhost(b, k); !ok {
				return mergeFail(11)
			}
		}
		ghost[k] = Ite(g, ta, tb)
	}
	for k, tb := range b.ghost {
		if _, ok := a.ghost[k]; !ok {
			if strings.HasPrefix(k, "iter:") {
				continue
			}
			ta, ok := initialGhost(a, k)
			if !ok {
				return mergeFail(12)
			}
			ghost[k] = Ite(g, ta, tb)
		}
	}
	// call history: keep records present in both states (arguments merged by value)
	lastCall := map[string]callRec{}
	validOf := func(r callRec) Term {
		if r.valid.IsZero() {
			return True
		}
		return r.valid
	}
	for k, ra := range a.lastCall {
		rb, ok := b.lastCall[k]
		if !ok {
			// called only on a's side: the record is valid exactly when the merged state came from a
			nr := ra
			nr.valid = And(g, validOf(ra))
			lastCall[k] = nr
			continue
		}
		if len(ra.args) != len(rb.args) || len(ra.rets) != len(rb.rets) {
			continue
		}
		okAll := true
		nr := callRec{valid: Ite(g, validOf(ra), validOf(rb))}
		if ra.post == rb.post {
			nr.post = ra.post // the same call (made before the branches split): the same post-state snapshot
		}
		for i := range ra.args {
			mv, ok := mergeVal(g, ra.args[i], rb.args[i])
			if !ok {
				okAll = false
				break
			}
			nr.args = append(nr.args, mv)
		}
		for i := range ra.rets {
			if !okAll {
				break
			}
			mv, ok := mergeVal(g, ra.rets[i], rb.rets[i])
			if !ok {
				okAll = false
				break
			}
			nr.rets = append(nr.rets, mv)
		}
		if okAll {
			lastCall[k] = nr
		}
	}
	for k, rb := range b.lastCall {
		if _, ok := a.lastCall[k]; !ok {
			nr := rb
			nr.valid = And(Not(g), validOf(rb))
			lastCall[k] = nr
		}
	}
	// commit
	if b.leakAll {
		a.leakAll = true
	}
	for k, v := range b.leaked {
		if v {
			if a.leaked == nil {
				a.leaked = map[*ssa.Alloc]bool{}
			}
			a.leaked[k] = true
		}
	}
	a.lastCall = lastCall
	// The two suffixes are NAMED (pa, pb) and their definitions hoisted out of the path condition: a later merge
	// then embeds two small names instead of copying these suffixes three times (queries grew to megabytes).
	// A definition of a fresh name is a conservative extension, so asserting it unconditionally is sound.
	pa, pb := Fresh("pcA", SBool), Fresh("pcB", SBool)
	seenH := map[string]bool{}
	var hoist []Term
	for _, h := range append(append([]Term{}, a.hoist...), b.hoist...) {
		if !seenH[h.S] {
			seenH[h.S] = true
			hoist = append(hoist, h)
		}
	}
	a.hoist = append(hoist, Eq(pa, ga), Eq(pb, gb))
	a.pc = append(append([]Term{}, a.pc[:n]...), Eq(g, pa), Or(pa, pb))
	newCells := map[cellKey]Val{}
	for _, c := range cells {
		newCells[c.k] = c.v
	}
	a.cells = newCells
	for i := range a.frames {
		a.frames[i].regs = map[ssa.Value]Val{}
	}
	for _, u := range regs {
		a.frames[u.fi].regs[u.k] = u.v
	}
	for k, t := range heap {
		a.heap[k] = a.define("mh", t)
	}
	a.ghost = ghost
	a.W = Ite(g, a.W, b.W)
	if a.W.S != b.W.S {
		w := Fresh("W", SInt)
		a.pc = append(a.pc, Eq(w, a.W))
		a.W = w
	}
	nd := map[string]Term{}
	for k, v := range a.defs {
		if b.defs[k].S == v.S {
			nd[k] = v
		}
	}
	a.defs = nd
	nn := map[string]bool{}
	for k := range a.nonnil {
		if b.nonnil[k] {
			nn[k] = true
		}
	}
	a.nonnil = nn
	for k, v := range b.boxes {
		if _, ok := a.boxes[k]; !ok {
			a.boxes[k] = v
		}
	}
	if a.writes != nil && b.writes != nil {
		for k, v := range b.writes {
			a.writes[k] = append(a.writes[k], v...)
		}
		for k := range b.allocLog {
			a.allocLog[k] = true
		}
	}
	a.trail = append(a.trail, "merged")
	if b.steps > a.steps {
		a.steps = b.steps
	}
	return true
}

// branchMerged executes both arms of a conditional up to the join block and merges them.
// Returns false if the branch has no usable join (then the caller forks as usual).
func (r *Runner) branchMerged(st *State, f *Frame, c Term, tb, fb *ssa.BasicBlock) bool {
	join := ipdoms(f.fn)[f.blk.Index]
	if join == nil || r.noMerge {
		return false
	}
	li := r.loops(f.fn)
	if _, isHdr := li.body[join.Index]; isHdr {
		return false // joins at loop heads are cut points, not merge points
	}
	depth := len(st.frames) - 1
	fid := f.id
	stopAt := firstNonPhi(join)
	arrived := func(s *State) bool {
		if s.dead || len(s.frames)-1 != depth {
			return false
		}
		t := s.top()
		return t.id == fid && t.blk == join && t.ip == stopAt
	}
	other := r.fork(st)
	st.assume(c)
	st.trail = append(st.trail, trailMark(f.blk.Index, true))
	r.gotoBlock(st, tb)
	of := other.top()
	other.assume(Not(c))
	other.trail = append(other.trail, trailMark(of.blk.Index, false))
	r.gotoBlock(other, fb)
	run := func(s *State) {
		for !s.dead && !arrived(s) {
			r.step(s)
			s.steps++
			if s.steps > 200000 {
				panic(unsupported("step limit"))
			}
		}
	}
	run(st)
	run(other)
	switch {
	case st.dead && other.dead:
		return true
	case st.dead:
		*st = *other
		return true
	case other.dead:
		return true
	}
	if r.mergeInto(st, other) {
		r.paths--
		return true
	}
	// not mergeable: continue both independently
	r.work = append(r.work, other)
	return true
}

func trailMark(b int, t bool) string {
	if t {
		return "b" + itoa(b) + ":T"
	}
	return "b" + itoa(b) + ":F"
}

func itoa(n int) string {
	if n == 0 {
		return "0"
	}
	s := ""
	neg := n < 0
	if neg {
		n = -n
	}
	for n > 0 {
		s = string(rune('0'+n%10)) + s
		n /= 10
	}
	if neg {
		s = "-" + s
	}
	return s
}

var mergeFailCount = map[int]int{}

func mergeFail(n int) bool {
	mergeFailCount[n]++
	return false
}

// runInlined executes an inlined call to completion on every path and merges the states that
// return to the caller (a callee with several return statements would otherwise multiply the
// caller's paths). st must have the callee frame on top; depth is the caller's frame index.
func (r *Runner) runInlined(st *State, depth int) {
	saved := r.work
	r.work = nil
	queue := []*State{st}
	var arrived []*State
	for len(queue) > 0 {
		s := queue[len(queue)-1]
		queue = queue[:len(queue)-1]
		for !s.dead && len(s.frames)-1 > depth {
			r.step(s)
			s.steps++
			if s.steps > 200000 {
				panic(unsupported("step limit"))
			}
		}
		if !s.dead {
			arrived = append(arrived, s)
		}
		queue = append(queue, r.work...)
		r.work = nil
	}
	r.work = saved
	if len(arrived) == 0 {
		st.dead = true
		return
	}
	// the caller keeps stepping st: make it the first survivor
	first := arrived[0]
	if first != st {
		found := false
		for i, s := range arrived {
			if s == st {
				arrived[0], arrived[i] = arrived[i], arrived[0]
				found = true
				break
			}
		}
		if !found {
			*st = *first
			arrived[0] = st
		}
	}
	for _, s := range arrived[1:] {
		if r.noMerge || !r.mergeInto(st, s) {
			r.work = append(r.work, s)
		} else {
			r.paths--
		}
	}
}

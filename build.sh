#!/bin/sh
# Builds /verif/bin/govc offline with the pre-installed go1.26.8.
set -e
cd /verif/govc
PATH=/opt/veriftools/go1.26.8/bin:$PATH GOTOOLCHAIN=local GOPROXY=off GOSUMDB=off GOFLAGS=-mod=mod go build -o /verif/bin/govc .
